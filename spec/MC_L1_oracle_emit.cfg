SPECIFICATION Spec
CONSTANTS Fam = "oracle"  Tier = "quick"  Devs = {}  FailCap = 1
VIEW View
ACTION_CONSTRAINT Emit
CHECK_DEADLOCK FALSE
