SPECIFICATION Spec
CONSTANTS Fam = "oracle"  Tier = "quick"  Devs = {}  FailCap = 1
VIEW View
INVARIANTS Inv_Oracle Inv_PositivePeriod
PROPERTIES P_ProposeRule P_DeleteRule P_WindowHonoured P_FinalIrreversible P_NoEffectOnReject P_AuthOnlyIf
CHECK_DEADLOCK FALSE
