-------------------------- MODULE OutputOracleProof --------------------------
(***************************************************************************)
(* The output-oracle fragment of L1Host (one bridge: propose / delete /      *)
(* advance time) with NO bound at all: logs of any length, unbounded block   *)
(* numbers, times and periods.  The TLA+ proof system (tlapm) checks that    *)
(* IndInv is an inductive invariant, that it implies the C11 / C05 structure *)
(* properties (L2Increasing, TimeMonotone, FinalPrefix) and that every step  *)
(* keeps final outputs in place and final (FinalStays).  It complements      *)
(* OutputOracleInd.tla (Apalache, logs of up to 4 outputs) and TLC's small   *)
(* constants; like them it says nothing about the code by itself - the       *)
(* transitions are those E2 / E3 bind to the keeper.                         *)
(* Time is in half-second ticks; finality compares whole seconds (x \div 2), *)
(* as isFinalizedWithConfig does.                                            *)
(***************************************************************************)
EXTENDS Integers, Sequences, TLAPS

VARIABLES outs, now, period
vars == <<outs, now, period>>

Rec == [l2bn : Int, t : Int]
Unix(x) == x \div 2
FinalIn(o, n, p, j) == Unix(n) >= Unix(o[j].t + p)
Final(j) == FinalIn(outs, now, period, j)

Init ==
  /\ outs = << >>
  /\ now = 0
  /\ period \in Int
  /\ period > 0

Propose ==
  \E n \in Int :
    /\ (Len(outs) = 0 \/ n > outs[Len(outs)].l2bn)
    /\ outs' = Append(outs, [l2bn |-> n, t |-> now])
    /\ UNCHANGED <<now, period>>

Delete ==
  \E i \in 1..Len(outs) :
    /\ \A j \in i..Len(outs) : ~Final(j)
    /\ outs' = SubSeq(outs, 1, i - 1)
    /\ UNCHANGED <<now, period>>

Advance ==
  \E d \in Nat :
    /\ now' = now + d
    /\ UNCHANGED <<outs, period>>

Next == Propose \/ Delete \/ Advance
Spec == Init /\ [][Next]_vars

IndInv ==
  /\ outs \in Seq(Rec)
  /\ period \in Int /\ period > 0
  /\ now \in Nat
  /\ \A j \in 1..Len(outs) : outs[j].t >= 0 /\ outs[j].t <= now
  /\ \A i, j \in 1..Len(outs) : i < j => (outs[i].l2bn < outs[j].l2bn /\ outs[i].t <= outs[j].t)

L2Increasing == \A i, j \in 1..Len(outs) : i < j => outs[i].l2bn < outs[j].l2bn
TimeMonotone == \A i, j \in 1..Len(outs) : i < j => outs[i].t <= outs[j].t
FinalPrefix  == \A i, j \in 1..Len(outs) : (i < j /\ Final(j)) => Final(i)
Structure == L2Increasing /\ TimeMonotone /\ FinalPrefix

(* finality is irreversible and final outputs are never deleted or replaced *)
FinalStays ==
  \A j \in 1..Len(outs) :
    Final(j) => (j \in 1..Len(outs') /\ outs'[j] = outs[j] /\ FinalIn(outs', now', period', j))

----------------------------------------------------------------------------
LEMMA DivMono == \A a, b \in Int : a <= b => Unix(a) <= Unix(b)
  BY DEF Unix

THEOREM InitInv == Init => IndInv
  BY DEF Init, IndInv, Rec

THEOREM StructureHolds == IndInv => Structure
<1> SUFFICES ASSUME IndInv PROVE Structure
  OBVIOUS
<1>1. L2Increasing
  BY DEF IndInv, L2Increasing
<1>2. TimeMonotone
  BY DEF IndInv, TimeMonotone
<1>3. FinalPrefix
  <2> SUFFICES ASSUME NEW i \in 1..Len(outs), NEW j \in 1..Len(outs), i < j, Final(j) PROVE Final(i)
    BY DEF FinalPrefix
  <2>1. outs[i].t \in Int /\ outs[j].t \in Int /\ period \in Int /\ now \in Int
    BY DEF IndInv, Rec
  <2>2. outs[i].t + period <= outs[j].t + period
    BY <2>1 DEF IndInv
  <2>3. Unix(outs[i].t + period) <= Unix(outs[j].t + period)
    BY <2>1, <2>2, DivMono
  <2> QED
    BY <2>1, <2>3 DEF Final, FinalIn, Unix
<1> QED
  BY <1>1, <1>2, <1>3 DEF Structure

THEOREM NextInv == IndInv /\ [Next]_vars => IndInv'
<1> SUFFICES ASSUME IndInv, [Next]_vars PROVE IndInv'
  OBVIOUS
<1> USE DEF IndInv, Rec
<1>1. CASE Propose
  <2>1. PICK n \in Int : /\ (Len(outs) = 0 \/ n > outs[Len(outs)].l2bn)
                         /\ outs' = Append(outs, [l2bn |-> n, t |-> now])
                         /\ UNCHANGED <<now, period>>
    BY <1>1 DEF Propose
  <2>2. outs' \in Seq(Rec) /\ Len(outs') = Len(outs) + 1
    BY <2>1
  <2>3. \A k \in 1..Len(outs) : outs'[k] = outs[k]
    BY <2>1
  <2>4. outs'[Len(outs) + 1] = [l2bn |-> n, t |-> now]
    BY <2>1
  <2>5. \A k \in 1..Len(outs') : outs'[k].t >= 0 /\ outs'[k].t <= now'
    BY <2>1, <2>2, <2>3, <2>4
  <2>6. \A i, j \in 1..Len(outs') : i < j => (outs'[i].l2bn < outs'[j].l2bn /\ outs'[i].t <= outs'[j].t)
    <3> SUFFICES ASSUME NEW i \in 1..Len(outs'), NEW j \in 1..Len(outs'), i < j
                 PROVE outs'[i].l2bn < outs'[j].l2bn /\ outs'[i].t <= outs'[j].t
      OBVIOUS
    <3>1. CASE j <= Len(outs)
      BY <3>1, <2>2, <2>3
    <3>2. CASE j = Len(outs) + 1
      <4>1. i \in 1..Len(outs) /\ Len(outs) \in 1..Len(outs)
        BY <3>2, <2>2
      <4>2. outs[i].l2bn <= outs[Len(outs)].l2bn
        BY <4>1
      <4>3. outs[Len(outs)].l2bn < n
        BY <4>1, <2>1
      <4>4. outs[i].l2bn \in Int /\ outs[Len(outs)].l2bn \in Int
        BY <4>1
      <4> QED
        BY <4>1, <4>2, <4>3, <4>4, <2>3, <2>4, <3>2
    <3> QED
      BY <3>1, <3>2, <2>2
  <2> QED
    BY <2>1, <2>2, <2>5, <2>6
<1>2. CASE Delete
  <2>1. PICK i \in 1..Len(outs) : /\ \A j \in i..Len(outs) : ~Final(j)
                                  /\ outs' = SubSeq(outs, 1, i - 1)
                                  /\ UNCHANGED <<now, period>>
    BY <1>2 DEF Delete
  <2>2. outs' \in Seq(Rec) /\ Len(outs') = i - 1 /\ \A k \in 1..(i - 1) : outs'[k] = outs[k]
    BY <2>1
  <2> QED
    BY <2>1, <2>2
<1>3. CASE Advance
  BY <1>3 DEF Advance
<1>4. CASE UNCHANGED vars
  BY <1>4 DEF vars
<1> QED
  BY <1>1, <1>2, <1>3, <1>4 DEF Next

THEOREM FinalIrreversible == IndInv /\ [Next]_vars => FinalStays
<1> SUFFICES ASSUME IndInv, [Next]_vars, NEW j \in 1..Len(outs), Final(j)
             PROVE j \in 1..Len(outs') /\ outs'[j] = outs[j] /\ FinalIn(outs', now', period', j)
  BY DEF FinalStays
<1> USE DEF IndInv, Rec
<1>0. outs[j].t \in Int /\ period \in Int /\ now \in Int
  OBVIOUS
<1>1. CASE Propose
  <2>1. PICK n \in Int : outs' = Append(outs, [l2bn |-> n, t |-> now]) /\ UNCHANGED <<now, period>>
    BY <1>1 DEF Propose
  <2> QED
    BY <2>1 DEF Final, FinalIn
<1>2. CASE Delete
  <2>1. PICK i \in 1..Len(outs) : /\ \A k \in i..Len(outs) : ~Final(k)
                                  /\ outs' = SubSeq(outs, 1, i - 1)
                                  /\ UNCHANGED <<now, period>>
    BY <1>2 DEF Delete
  <2>2. j < i
    BY <2>1
  <2>3. Len(outs') = i - 1 /\ outs'[j] = outs[j]
    BY <2>1, <2>2
  <2> QED
    BY <2>1, <2>2, <2>3 DEF Final, FinalIn
<1>3. CASE Advance
  <2>1. PICK d \in Nat : now' = now + d /\ UNCHANGED <<outs, period>>
    BY <1>3 DEF Advance
  <2>2. Unix(now) <= Unix(now')
    BY <2>1, DivMono
  <2> QED
    BY <2>1, <2>2, <1>0 DEF Final, FinalIn, Unix
<1>4. CASE UNCHANGED vars
  BY <1>4 DEF vars, Final, FinalIn
<1> QED
  BY <1>1, <1>2, <1>3, <1>4 DEF Next

THEOREM Safety == Spec => [](IndInv /\ Structure)
<1>1. Spec => []IndInv
  BY InitInv, NextInv, PTL DEF Spec
<1> QED
  BY <1>1, StructureHolds, PTL
=============================================================================
