------------------------------- MODULE L1Host -------------------------------
(***************************************************************************)
(* Specification of the OPinit L1 module x/ophost (keeper/msg_server.go,   *)
(* output.go, bridge.go, withdrawal.go, token_pair.go, batch_info.go,       *)
(* genesis.go, types/tx.go, types/bridge_config.go) together with the       *)
(* permissioned-IBC bridge hook (types/hook/bridge_hook.go).                *)
(*                                                                         *)
(* Style (DESIGN.md 4.1): every message handler is one action, written as   *)
(*   X_G(s,e)  a record of named guards, one per `return err` of the code   *)
(*   X_E(s,e)  the post-state when all guards hold                          *)
(*   X_R(s,e)  the response / emitted event                                 *)
(* and Step(s,e) packages them.  The state s is one JSON-closed record so   *)
(* that the same Step is used by the model-checking spec (MC_L1), by the    *)
(* transition emitter that feeds the replay on the real keepers, and by    *)
(* the trace spec that validates histories recorded from the real keepers. *)
(***************************************************************************)
EXTENDS Integers, Sequences, FiniteSets, TLC

----------------------------------------------------------------------------
(* generic helpers on string-keyed maps                                     *)
Put(f, k, v) == [x \in (DOMAIN f) \cup {k} |-> IF x = k THEN v ELSE f[x]]
Del(f, k)    == [x \in (DOMAIN f) \ {k} |-> f[x]]
Has(f, k)    == k \in DOMAIN f
EmptyMap     == [x \in {} |-> 0]
K(n)         == ToString(n)
Max(S)       == CHOOSE x \in S : \A y \in S : y <= x
AllTrue(g)   == \A n \in DOMAIN g : g[n]
FalseOnes(g) == {n \in DOMAIN g : ~g[n]}

(* time: integer ticks of half a second; the code compares whole seconds    *)
(* s.sec = number of ticks in one second-granularity step (2 for half-second ticks; 1 when a tick is a whole number of seconds) *)
Unix(s, x) == x \div s.sec

----------------------------------------------------------------------------
(* Address classes.  Names starting with "bad:" are strings that do not     *)
(* parse as an account address; "" is the empty string.                     *)
BadAddrs    == {"bad:empty", "bad:notbech32", "bad:space"}      \* "bad:space": a string of blanks - not empty, not an address
ValidAddr(a) == a \notin BadAddrs
NonEmpty(a)  == a # "bad:empty"
Gov == "gov"

(* "up:<name>" is the same bech32 address written in upper case: a different STRING (it hashes differently) that names the same ACCOUNT *)
UpperAlias == [x \in {"up:u1", "up:u2", "up:u3", "up:u4"} |-> CASE x = "up:u1" -> "u1" [] x = "up:u2" -> "u2" [] x = "up:u3" -> "u3" [] x = "up:u4" -> "u4"]
Acct(a) == IF a \in DOMAIN UpperAlias THEN UpperAlias[a] ELSE a

(* the escrow account of bridge b and the community pool are ledger accounts *)
Esc(b) == "esc" \o K(b)
Pool   == "pool"

(* denominations: "bad:denom" fails sdk.ValidateDenom *)
ValidDenom(d) == d # "bad:denom"
L2DenomOf(b, d) == "l2/" \o K(b) \o "/" \o d

(* withdrawal leaf identity: the six committed fields *)
LeafId(b, w) == K(b) \o "|" \o K(w.seq) \o "|" \o w.from \o "|" \o w.to \o "|" \o w.denom \o "|" \o K(w.amt)

NoOutput == [root |-> [v |-> 0, t |-> "", h |-> ""], l2bn |-> 0, t |-> 0, h |-> 0, empty |-> TRUE]
MkOutput(root, l2bn, t, h) == [root |-> root, l2bn |-> l2bn, t |-> t, h |-> h, empty |-> FALSE]

----------------------------------------------------------------------------
(* Deviations: behaviours of the implementation that contradict a listed    *)
(* property and are kept (switchable) so the code still conforms while the  *)
(* finding is open.  The set of enabled deviations is part of the state     *)
(* (s.devs) so that traces and model runs can differ without recompiling.   *)
DEV_NegativePeriod   == "DEV_NegativePeriod"     \* C05: period < 0 accepted
DEV_DepositNoBridge  == "DEV_DepositNoBridge"    \* C10: deposit into a bridge id that does not exist
DEV_AmountOverU64    == "DEV_AmountOverU64"      \* C04: deposit amount >= 2^64 accepted
Dev(s, d) == d \in DOMAIN s.devs

----------------------------------------------------------------------------
(* Derived observations (query view)                                        *)
IsFinalAt(s, b, o) ==      \* o is an output record of bridge b
  Unix(s, s.now) >= Unix(s, o.t + s.cfg[K(b)].period)

AllOutIdx(s, b) == {i \in 0..(s.nextOut[K(b)] + 2) : Has(s.outs[K(b)], K(i))}

LastFinalIdx(s, b) ==
  IF ~Has(s.cfg, K(b)) THEN 0
  ELSE LET F == {i \in AllOutIdx(s, b) : IsFinalAt(s, b, s.outs[K(b)][K(i)])}
           \* the code walks the outputs in descending index order and stops at the first final one
       IN IF F = {} THEN 0 ELSE Max(F)

LastFinalOut(s, b) ==
  LET i == LastFinalIdx(s, b) IN IF i = 0 THEN NoOutput ELSE s.outs[K(b)][K(i)]

Obs(s) == [s EXCEPT !.lastFinal = [k \in DOMAIN s.lastFinal |->
             LET b == CHOOSE n \in 1..16 : K(n) = k IN LastFinalIdx(s, b)]]

----------------------------------------------------------------------------
(* ledger helpers                                                           *)
Bal(s, a, d) == IF Has(s.bal, a) /\ Has(s.bal[a], d) THEN s.bal[a][d] ELSE 0
Move(bal, from, to, d, n) ==
  IF n = 0 \/ from = to THEN bal
  ELSE [a \in DOMAIN bal |->
          IF a = from THEN [bal[a] EXCEPT ![d] = @ - n]
          ELSE IF a = to THEN [bal[a] EXCEPT ![d] = @ + n]
          ELSE bal[a]]
Tracked(s, a, d) == Has(s.bal, a) /\ Has(s.bal[a], d)

----------------------------------------------------------------------------
(* Permissioned channel hook (types/hook).  s.chan[c] = [seq, admin]:       *)
(*   seq = 0 : channel does not exist;  seq = 1 : fresh;  seq > 1 : in use  *)
(*   admin = "" : no relayer admin registered                               *)
(* only well-formed metadata lists channels; class "incomplete" is well-formed but has one more entry without a port id,  *)
(* i.e. it also lists a channel that does not exist ("nochan" is never a key of s.chan)                                    *)
MetaChans(m) == IF m.cls = "perm" THEN m.chs ELSE IF m.cls = "incomplete" THEN Append(m.chs, "nochan") ELSE << >>
ChanFresh(ch, c)   == Has(ch, c) /\ ch[c].seq = 1 /\ ch[c].admin = ""
RegisterAll(ch, cs, who, skipOwn) ==
  \* returns [ok, chan]; channels are processed in order, a channel may be listed twice
  LET RECURSIVE Go(_, _)
      Go(i, cur) ==
        IF i > Len(cs) THEN [ok |-> TRUE, chan |-> cur]
        ELSE LET c == cs[i] IN
             IF skipOwn /\ Has(cur, c) /\ cur[c].admin = who THEN Go(i + 1, cur)
             ELSE IF ChanFresh(cur, c) THEN Go(i + 1, [cur EXCEPT ![c].admin = who])
             ELSE [ok |-> FALSE, chan |-> ch]
  IN Go(1, ch)
SetAdminAll(ch, cs, who) ==
  \* UpdateChallenger: IBCPermKeeper.SetAdmin for every listed channel, unconditionally
  [c \in DOMAIN ch |-> IF \E i \in 1..Len(cs) : cs[i] = c THEN [ch[c] EXCEPT !.admin = who] ELSE ch[c]]
ListedKnown(ch, cs) == \A i \in 1..Len(cs) : Has(ch, cs[i])

----------------------------------------------------------------------------
(* CreateBridge                                                             *)
CfgValid(s, c) ==
  /\ ValidAddr(c.challenger) /\ ValidAddr(c.proposer)
  /\ c.bchain # "UNSPECIFIED" /\ c.bsub # ""
  /\ c.period # 0 /\ c.interval # 0 /\ c.startH # 0

CreateBridge_G(s, e) ==
  [ valid       |-> ValidAddr(e.signer) /\ CfgValid(s, e.cfg) /\ e.cfg.meta.cls # "long",
    periodPositive |-> Dev(s, DEV_NegativePeriod) \/ e.cfg.period >= 0,
    feeCovered  |-> ValidAddr(e.signer) => (s.fee = 0 \/ Bal(s, e.signer, s.feeDenom) >= s.fee),
    hookOK      |-> RegisterAll(s.chan, MetaChans(e.cfg.meta), e.cfg.challenger, FALSE).ok ]

CreateBridge_E(s, e) ==
  LET id == s.nextB  k == K(id)  c == e.cfg
      stored == [proposer |-> c.proposer, challenger |-> c.challenger, period |-> c.period,
                 interval |-> c.interval, startH |-> c.startH, oracle |-> c.oracle,
                 meta |-> c.meta, bsub |-> c.bsub, bchain |-> c.bchain]
  IN [s EXCEPT !.nextB = id + 1,
               !.cfg   = Put(s.cfg, k, stored),
               !.batch = [s.batch EXCEPT ![k] = << [sub |-> c.bsub, chain |-> c.bchain, out |-> NoOutput] >>],
               !.bal   = Move(s.bal, e.signer, Pool, s.feeDenom, s.fee),
               !.chan  = RegisterAll(s.chan, MetaChans(c.meta), c.challenger, FALSE).chan]
CreateBridge_R(s, e) ==
  [bridge |-> s.nextB,
   \* the emitted event (what off-chain bots index); the same for the evt fields below
   evt |-> [creator |-> e.signer, proposer |-> e.cfg.proposer, challenger |-> e.cfg.challenger, bchain |-> e.cfg.bchain, bsub |-> e.cfg.bsub,
            bridge |-> s.nextB, oracle |-> e.cfg.oracle]]

----------------------------------------------------------------------------
(* ProposeOutput                                                            *)
ProposeOutput_G(s, e) ==
  LET k == K(e.b) ex == Has(s.cfg, k) IN
  [ valid         |-> ValidAddr(e.signer) /\ e.b # 0 /\ e.bad = "none",
    bridgeExists  |-> ex,
    auth          |-> ex /\ e.signer = s.cfg[k].proposer,
    indexIsNext   |-> Has(s.nextOut, k) /\ e.idx = s.nextOut[k],
    l2bnIncreases |-> Has(s.nextOut, k) /\
                      LET n == s.nextOut[k] IN
                        n = 1 \/ (Has(s.outs[k], K(n - 1)) /\ e.l2bn > s.outs[k][K(n - 1)].l2bn) ]
ProposeOutput_E(s, e) ==
  LET k == K(e.b) n == s.nextOut[k] IN
  [s EXCEPT !.outs    = [s.outs EXCEPT ![k] = Put(s.outs[k], K(n), MkOutput(e.root, e.l2bn, s.now, s.h))],
            !.nextOut = [s.nextOut EXCEPT ![k] = n + 1]]
ProposeOutput_R(s, e) == [idx |-> e.idx, evt |-> [proposer |-> e.signer, bridge |-> e.b, idx |-> e.idx, l2bn |-> e.l2bn, root |-> e.root]]

----------------------------------------------------------------------------
(* DeleteOutput                                                             *)
DeleteOutput_G(s, e) ==
  LET k == K(e.b) ex == Has(s.cfg, k) IN
  [ valid        |-> ValidAddr(e.signer) /\ e.b # 0 /\ e.idx # 0,
    bridgeExists |-> ex,
    auth         |-> ex /\ e.signer \in {Gov, s.cfg[k].proposer, s.cfg[k].challenger},
    idxInRange   |-> Has(s.nextOut, k) /\ e.idx < s.nextOut[k],
    noneFinal    |-> ex /\ Has(s.nextOut, k) /\
                     \A j \in e.idx..(s.nextOut[k] - 1) :
                        Has(s.outs[k], K(j)) /\ ~IsFinalAt(s, e.b, s.outs[k][K(j)]) ]
DeleteOutput_E(s, e) ==
  LET k == K(e.b) IN
  [s EXCEPT !.outs    = [s.outs EXCEPT ![k] = [x \in {K(j) : j \in {i \in AllOutIdx(s, e.b) : i < e.idx \/ i >= s.nextOut[k]}} |-> s.outs[k][x]]],
            !.nextOut = [s.nextOut EXCEPT ![k] = e.idx]]
DeleteOutput_R(s, e) == [idx |-> e.idx, evt |-> [challenger |-> e.signer, bridge |-> e.b, idx |-> e.idx]]

----------------------------------------------------------------------------
(* InitiateTokenDeposit                                                     *)
InitiateTokenDeposit_G(s, e) ==
  [ valid        |-> ValidAddr(e.signer) /\ NonEmpty(e.to) /\ ValidDenom(e.denom) /\ e.amt >= 0 /\ e.b # 0,
    fitsU64      |-> Dev(s, DEV_AmountOverU64) \/ e.amt <= s.cap,
    bridgeExists |-> Dev(s, DEV_DepositNoBridge) \/ Has(s.cfg, K(e.b)),
    funds        |-> ValidAddr(e.signer) /\ ValidDenom(e.denom) => (e.amt <= 0 \/ Bal(s, e.signer, e.denom) >= e.amt) ]
InitiateTokenDeposit_E(s, e) ==
  LET k == K(e.b) l2d == L2DenomOf(e.b, e.denom) IN
  [s EXCEPT !.l1seq = [s.l1seq EXCEPT ![k] = @ + 1],
            !.bal   = Move(s.bal, e.signer, Esc(e.b), e.denom, e.amt),
            !.pairs = IF Has(s.pairs[k], l2d) THEN s.pairs ELSE [s.pairs EXCEPT ![k] = Put(@, l2d, e.denom)]]
InitiateTokenDeposit_R(s, e) ==
  [seq |-> s.l1seq[K(e.b)],
   ev  |-> [bridge |-> e.b, seq |-> s.l1seq[K(e.b)], from |-> e.signer, to |-> e.to, l1denom |-> e.denom,
            l2denom |-> L2DenomOf(e.b, e.denom), amt |-> e.amt, data |-> e.data]]

----------------------------------------------------------------------------
(* FinalizeTokenWithdrawal.  e.w = [seq, from, to, denom, amt]; e.root is   *)
(* the abstract identity of OutputRoot(version, storageRoot, blockHash) and *)
(* e.proofOK says whether Leaf(e.b, e.w) hashes up to storageRoot through   *)
(* the supplied proof -- both are evaluated independently of the chain      *)
(* (Formats.tla / the generic evaluator) for the bytes actually submitted.  *)
FinalizeTokenWithdrawal_G(s, e) ==
  LET k == K(e.b) ok == K(e.out) ex == Has(s.cfg, k) /\ Has(s.outs, k) /\ Has(s.outs[k], ok) IN
  [ valid        |-> ValidAddr(e.signer) /\ NonEmpty(e.w.from) /\ ValidAddr(e.w.to) /\ ValidDenom(e.w.denom)
                     /\ e.w.amt > 0 /\ e.w.seq # 0 /\ e.b # 0 /\ e.out # 0 /\ e.bad = "none",
    outputExists |-> ex,
    finalized    |-> ex /\ IsFinalAt(s, e.b, s.outs[k][ok]),
    rootMatches  |-> ex /\ s.outs[k][ok].root = e.root,
    fitsU64      |-> e.w.amt <= s.cap,
    notClaimed   |-> ~(Has(s.claimed, k) /\ Has(s.claimed[k], LeafId(e.b, e.w))),
    proofOK      |-> e.proofOK,
    escrowCovers |-> ValidDenom(e.w.denom) => Bal(s, Esc(e.b), e.w.denom) >= e.w.amt ]
FinalizeTokenWithdrawal_E(s, e) ==
  [s EXCEPT !.claimed = [s.claimed EXCEPT ![K(e.b)] = Put(@, LeafId(e.b, e.w), TRUE)],
            !.bal     = Move(s.bal, Esc(e.b), Acct(e.w.to), e.w.denom, e.w.amt)]
FinalizeTokenWithdrawal_R(s, e) ==
  [ev |-> [bridge |-> e.b, out |-> e.out, seq |-> e.w.seq, from |-> e.w.from, to |-> e.w.to,
           l1denom |-> e.w.denom, l2denom |-> L2DenomOf(e.b, e.w.denom), amt |-> e.w.amt]]

----------------------------------------------------------------------------
(* role / config updates                                                    *)
UpdRespOf(s, b) == [idx |-> LastFinalIdx(s, b), l2bn |-> LastFinalOut(s, b).l2bn]
UpdEvt(s, b, extra) == extra @@ [bridge |-> b, fidx |-> LastFinalIdx(s, b), fl2bn |-> LastFinalOut(s, b).l2bn]

UpdateProposer_G(s, e) ==
  LET k == K(e.b) ex == Has(s.cfg, k) IN
  [ valid        |-> ValidAddr(e.signer) /\ e.b # 0 /\ ValidAddr(e.new),
    bridgeExists |-> ex,
    auth         |-> ex /\ e.signer \in {Gov, s.cfg[k].proposer} ]
UpdateProposer_E(s, e) == [s EXCEPT !.cfg = [s.cfg EXCEPT ![K(e.b)].proposer = e.new]]
UpdateProposer_R(s, e) == UpdRespOf(s, e.b) @@ [evt |-> UpdEvt(s, e.b, [proposer |-> e.new])]

UpdateChallenger_G(s, e) ==
  LET k == K(e.b) ex == Has(s.cfg, k) IN
  [ valid        |-> ValidAddr(e.signer) /\ e.b # 0 /\ ValidAddr(e.new),
    bridgeExists |-> ex,
    auth         |-> ex /\ e.signer \in {Gov, s.cfg[k].challenger} ]
UpdateChallenger_E(s, e) ==
  LET k == K(e.b) IN
  [s EXCEPT !.cfg  = [s.cfg EXCEPT ![k].challenger = e.new],
            !.chan = SetAdminAll(s.chan, MetaChans(s.cfg[k].meta), e.new)]
UpdateChallenger_R(s, e) == UpdRespOf(s, e.b) @@ [evt |-> UpdEvt(s, e.b, [challenger |-> e.new])]

UpdateBatchInfo_G(s, e) ==
  LET k == K(e.b) ex == Has(s.cfg, k) IN
  [ valid        |-> ValidAddr(e.signer) /\ e.b # 0 /\ e.bchain # "UNSPECIFIED" /\ e.bsub # "",
    bridgeExists |-> ex,
    auth         |-> ex /\ e.signer \in {Gov, s.cfg[k].proposer} ]
UpdateBatchInfo_E(s, e) ==
  LET k == K(e.b) IN
  [s EXCEPT !.cfg   = [s.cfg EXCEPT ![k].bsub = e.bsub, ![k].bchain = e.bchain],
            !.batch = [s.batch EXCEPT ![k] = Append(@, [sub |-> e.bsub, chain |-> e.bchain, out |-> LastFinalOut(s, e.b)])]]
UpdateBatchInfo_R(s, e) == UpdRespOf(s, e.b) @@ [evt |-> UpdEvt(s, e.b, [bchain |-> e.bchain, bsub |-> e.bsub])]

UpdateOracleConfig_G(s, e) ==
  LET k == K(e.b) ex == Has(s.cfg, k) IN
  [ valid        |-> ValidAddr(e.signer) /\ e.b # 0,
    bridgeExists |-> ex,
    auth         |-> ex /\ e.signer \in {Gov, s.cfg[k].proposer} ]
UpdateOracleConfig_E(s, e) == [s EXCEPT !.cfg = [s.cfg EXCEPT ![K(e.b)].oracle = e.flag]]
UpdateOracleConfig_R(s, e) == [flag |-> e.flag, evt |-> [bridge |-> e.b, oracle |-> e.flag]]

UpdateMetadata_G(s, e) ==
  LET k == K(e.b) ex == Has(s.cfg, k) IN
  [ valid        |-> ValidAddr(e.signer) /\ e.b # 0 /\ e.meta.cls # "long",
    bridgeExists |-> ex,
    auth         |-> ex /\ e.signer \in {Gov, s.cfg[k].proposer},
    hookOK       |-> ex => RegisterAll(s.chan, MetaChans(e.meta), s.cfg[k].challenger, TRUE).ok ]
UpdateMetadata_E(s, e) ==
  LET k == K(e.b) IN
  [s EXCEPT !.cfg  = [s.cfg EXCEPT ![k].meta = e.meta],
            !.chan = RegisterAll(s.chan, MetaChans(e.meta), s.cfg[k].challenger, TRUE).chan]
UpdateMetadata_R(s, e) == UpdRespOf(s, e.b) @@ [evt |-> UpdEvt(s, e.b, [x \in {} |-> 0])]

UpdateParams_G(s, e) ==
  [ valid |-> ValidAddr(e.signer) /\ e.fee >= 0,
    auth  |-> e.signer = Gov ]
UpdateParams_E(s, e) == [s EXCEPT !.fee = e.fee]
UpdateParams_R(s, e) == [fee |-> e.fee]

RecordBatch_G(s, e) == [ valid |-> ValidAddr(e.signer) /\ e.b # 0 /\ e.bad = "none" ]
RecordBatch_E(s, e) == s
RecordBatch_R(s, e) == [submitter |-> e.signer]

----------------------------------------------------------------------------
(* environment actions                                                      *)
BankSend_G(s, e) ==
  [ valid |-> ValidAddr(e.signer) /\ ValidAddr(e.to) /\ ValidDenom(e.denom) /\ e.amt > 0
              /\ Tracked(s, e.signer, e.denom) /\ Tracked(s, e.to, e.denom) /\ e.to # Pool,
    funds |-> Bal(s, e.signer, e.denom) >= e.amt ]
BankSend_E(s, e) == [s EXCEPT !.bal = Move(s.bal, e.signer, e.to, e.denom, e.amt)]
BankSend_R(s, e) == [amt |-> e.amt]

AdvanceBlock_G(s, e) == [ valid |-> e.dt >= 0 ]
AdvanceBlock_E(s, e) == [s EXCEPT !.now = @ + e.dt, !.h = @ + 1]
AdvanceBlock_R(s, e) == [now |-> s.now + e.dt]

ChannelOpen_G(s, e) == [ valid |-> Has(s.chan, e.ch) /\ s.chan[e.ch].seq = 0 ]
ChannelOpen_E(s, e) == [s EXCEPT !.chan = [s.chan EXCEPT ![e.ch].seq = 1]]
ChannelSend_G(s, e) == [ valid |-> Has(s.chan, e.ch) /\ s.chan[e.ch].seq >= 1 /\ s.chan[e.ch].seq < 3 ]
ChannelSend_E(s, e) == [s EXCEPT !.chan = [s.chan EXCEPT ![e.ch].seq = @ + 1]]
ChannelTake_G(s, e) == [ valid |-> Has(s.chan, e.ch) /\ s.chan[e.ch].admin = "" ]   \* someone else registers as admin
ChannelTake_E(s, e) == [s EXCEPT !.chan = [s.chan EXCEPT ![e.ch].admin = e.who]]
ChanR(s, e) == [ch |-> e.ch]

(* Genesis round trip: export, validate, initialise a fresh chain, continue *)
(* on that chain.  Everything this module stores is part of genesis, so the  *)
(* abstract state is unchanged.                                             *)
ExportImport_G(s, e) == [ valid |-> TRUE ]
(* InitChain hands a genesis file to InitGenesis directly (ValidateGenesis is a separate, optional CLI step): a genesis whose  *)
(* bridge configuration is invalid - here the exported genesis with every finalization period set to e.period - must be    *)
(* refused there, or bridges without a challenge window exist from the first block.                                         *)
InitRaw_G(s, e) == [ periodPositive |-> DOMAIN s.cfg = {} \/ e.period > 0 ]
InitRaw_E(s, e) == s        \* the probe chain is thrown away
InitRaw_R(s, e) == [accepted |-> TRUE]
ExportImport_E(s, e) == s
ExportImport_R(s, e) == [same |-> TRUE, claimsKept |-> TRUE]    \* claimsKept: claim records at the edges of the hash space survive the round trip (harness probe)

----------------------------------------------------------------------------
(* gRPC queries (keeper/querier.go).  A query never changes state; the specification fixes its answer.  *)
(* Paginated queries take offset / limit / reverse (limit 0 = the SDK default of 100 items).            *)
RECURSIVE SortedIdx(_)
SortedIdx(S) == IF S = {} THEN << >> ELSE LET m == CHOOSE x \in S : \A y \in S : x <= y IN <<m>> \o SortedIdx(S \ {m})
Rev(q) == [i \in 1..Len(q) |-> q[Len(q) + 1 - i]]
Page(q, offset, limit, reverse) ==
  LET ord == IF reverse THEN Rev(q) ELSE q
      lim == IF limit = 0 THEN 100 ELSE limit
      from == offset + 1
      to == IF offset + lim < Len(ord) THEN offset + lim ELSE Len(ord)
  IN IF from > Len(ord) THEN << >> ELSE SubSeq(ord, from, to)
(* total reported by the SDK's collection pagination: the number of items, except that an offset beyond the end yields 0 *)
Total(q, offset) == IF offset > Len(q) THEN 0 ELSE Len(q)
OutIdxSeq(s, b) == SortedIdx({i \in 0..(s.nextOut[K(b)] + 2) : Has(s.outs[K(b)], K(i))})
BridgeIdSeq(s) == SortedIdx({n \in 1..16 : Has(s.cfg, K(n))})
Query_G(s, e) ==
  [ valid |-> TRUE,
    found |-> CASE e.q \in {"Bridge", "LastFinalizedOutput"} -> Has(s.cfg, K(e.b))
                [] e.q = "OutputProposal" -> Has(s.outs, K(e.b)) /\ Has(s.outs[K(e.b)], K(e.idx))
                [] e.q = "TokenPairByL2Denom" -> Has(s.pairs, K(e.b)) /\ Has(s.pairs[K(e.b)], L2DenomOf(e.b, e.denom))
                [] OTHER -> TRUE ]
Query_R(s, e) ==
  CASE e.q = "Bridge" -> [proposer |-> s.cfg[K(e.b)].proposer, challenger |-> s.cfg[K(e.b)].challenger, period |-> s.cfg[K(e.b)].period, addr |-> Esc(e.b)]
    [] e.q = "Bridges" -> [ids |-> Page(BridgeIdSeq(s), e.offset, e.limit, e.reverse), total |-> Total(BridgeIdSeq(s), e.offset)]
    [] e.q = "NextL1Sequence" -> [seq |-> IF Has(s.l1seq, K(e.b)) THEN s.l1seq[K(e.b)] ELSE 1]
    [] e.q = "LastFinalizedOutput" -> [idx |-> LastFinalIdx(s, e.b), l2bn |-> LastFinalOut(s, e.b).l2bn]
    [] e.q = "OutputProposal" -> [l2bn |-> s.outs[K(e.b)][K(e.idx)].l2bn, t |-> s.outs[K(e.b)][K(e.idx)].t, root |-> s.outs[K(e.b)][K(e.idx)].root]
    [] e.q = "OutputProposals" -> [idxs |-> Page(OutIdxSeq(s, e.b), e.offset, e.limit, e.reverse), total |-> Total(OutIdxSeq(s, e.b), e.offset)]
    [] e.q = "BatchInfos" -> [n |-> Len(Page(s.batch[K(e.b)], e.offset, e.limit, e.reverse)), total |-> Total(s.batch[K(e.b)], e.offset)]
    [] e.q = "TokenPairByL1Denom" -> [l2denom |-> L2DenomOf(e.b, e.denom)]
    [] e.q = "TokenPairByL2Denom" -> [l1denom |-> s.pairs[K(e.b)][L2DenomOf(e.b, e.denom)]]
    [] e.q = "TokenPairs" -> LET n == IF Has(s.pairs, K(e.b)) THEN Cardinality(DOMAIN s.pairs[K(e.b)]) ELSE 0
                                 all == [i \in 1..n |-> i] IN      \* store order of the L2 denoms is not specified: the page size and the total are
                             [n |-> Len(Page(all, e.offset, e.limit, e.reverse)), total |-> Total(all, e.offset)]
    [] e.q = "Claimed" -> [claimed |-> Has(s.claimed, K(e.b)) /\ Has(s.claimed[K(e.b)], LeafId(e.b, e.w))]
    [] e.q = "Params" -> [fee |-> s.fee]

----------------------------------------------------------------------------
Guards(s, e) ==
  CASE e.type = "Query"                   -> Query_G(s, e)
    [] e.type = "CreateBridge"            -> CreateBridge_G(s, e)
    [] e.type = "ProposeOutput"           -> ProposeOutput_G(s, e)
    [] e.type = "DeleteOutput"            -> DeleteOutput_G(s, e)
    [] e.type = "InitiateTokenDeposit"    -> InitiateTokenDeposit_G(s, e)
    [] e.type = "FinalizeTokenWithdrawal" -> FinalizeTokenWithdrawal_G(s, e)
    [] e.type = "UpdateProposer"          -> UpdateProposer_G(s, e)
    [] e.type = "UpdateChallenger"        -> UpdateChallenger_G(s, e)
    [] e.type = "UpdateBatchInfo"         -> UpdateBatchInfo_G(s, e)
    [] e.type = "UpdateOracleConfig"      -> UpdateOracleConfig_G(s, e)
    [] e.type = "UpdateMetadata"          -> UpdateMetadata_G(s, e)
    [] e.type = "UpdateParams"            -> UpdateParams_G(s, e)
    [] e.type = "RecordBatch"             -> RecordBatch_G(s, e)
    [] e.type = "BankSend"                -> BankSend_G(s, e)
    [] e.type = "AdvanceBlock"            -> AdvanceBlock_G(s, e)
    [] e.type = "ChannelOpen"             -> ChannelOpen_G(s, e)
    [] e.type = "ChannelSend"             -> ChannelSend_G(s, e)
    [] e.type = "ChannelTake"             -> ChannelTake_G(s, e)
    [] e.type = "ExportImport"            -> ExportImport_G(s, e)
    [] e.type = "InitRaw"                 -> InitRaw_G(s, e)

Effect(s, e) ==
  CASE e.type = "Query"                   -> s
    [] e.type = "CreateBridge"            -> CreateBridge_E(s, e)
    [] e.type = "ProposeOutput"           -> ProposeOutput_E(s, e)
    [] e.type = "DeleteOutput"            -> DeleteOutput_E(s, e)
    [] e.type = "InitiateTokenDeposit"    -> InitiateTokenDeposit_E(s, e)
    [] e.type = "FinalizeTokenWithdrawal" -> FinalizeTokenWithdrawal_E(s, e)
    [] e.type = "UpdateProposer"          -> UpdateProposer_E(s, e)
    [] e.type = "UpdateChallenger"        -> UpdateChallenger_E(s, e)
    [] e.type = "UpdateBatchInfo"         -> UpdateBatchInfo_E(s, e)
    [] e.type = "UpdateOracleConfig"      -> UpdateOracleConfig_E(s, e)
    [] e.type = "UpdateMetadata"          -> UpdateMetadata_E(s, e)
    [] e.type = "UpdateParams"            -> UpdateParams_E(s, e)
    [] e.type = "RecordBatch"             -> RecordBatch_E(s, e)
    [] e.type = "BankSend"                -> BankSend_E(s, e)
    [] e.type = "AdvanceBlock"            -> AdvanceBlock_E(s, e)
    [] e.type = "ChannelOpen"             -> ChannelOpen_E(s, e)
    [] e.type = "ChannelSend"             -> ChannelSend_E(s, e)
    [] e.type = "ChannelTake"             -> ChannelTake_E(s, e)
    [] e.type = "ExportImport"            -> ExportImport_E(s, e)
    [] e.type = "InitRaw"                 -> InitRaw_E(s, e)

Resp(s, e) ==
  CASE e.type = "Query"                   -> Query_R(s, e)
    [] e.type = "CreateBridge"            -> CreateBridge_R(s, e)
    [] e.type = "ProposeOutput"           -> ProposeOutput_R(s, e)
    [] e.type = "DeleteOutput"            -> DeleteOutput_R(s, e)
    [] e.type = "InitiateTokenDeposit"    -> InitiateTokenDeposit_R(s, e)
    [] e.type = "FinalizeTokenWithdrawal" -> FinalizeTokenWithdrawal_R(s, e)
    [] e.type = "UpdateProposer"          -> UpdateProposer_R(s, e)
    [] e.type = "UpdateChallenger"        -> UpdateChallenger_R(s, e)
    [] e.type = "UpdateBatchInfo"         -> UpdateBatchInfo_R(s, e)
    [] e.type = "UpdateOracleConfig"      -> UpdateOracleConfig_R(s, e)
    [] e.type = "UpdateMetadata"          -> UpdateMetadata_R(s, e)
    [] e.type = "UpdateParams"            -> UpdateParams_R(s, e)
    [] e.type = "RecordBatch"             -> RecordBatch_R(s, e)
    [] e.type = "BankSend"                -> BankSend_R(s, e)
    [] e.type = "AdvanceBlock"            -> AdvanceBlock_R(s, e)
    [] e.type \in {"ChannelOpen", "ChannelSend", "ChannelTake"} -> ChanR(s, e)
    [] e.type = "ExportImport"            -> ExportImport_R(s, e)
    [] e.type = "InitRaw"                 -> InitRaw_R(s, e)

(* Step: the deterministic transition function.  A failed message leaves    *)
(* the state unchanged (message-level atomicity of baseapp).                *)
NoResp == [none |-> TRUE]
Step(s, e) ==
  LET g == Guards(s, e) ok == AllTrue(g) IN
  [ ok     |-> ok,
    st     |-> IF ok THEN Obs(Effect(s, e)) ELSE s,
    resp   |-> IF ok THEN Resp(s, e) ELSE NoResp,
    failed |-> FalseOnes(g) ]

----------------------------------------------------------------------------
(* Initial state for a run: accounts x denoms grid; accounts in `funded` hold `amt0` units of every denom *)
InitStateSec(bridgeKeys, accts, denoms, funded, amt0, feeDenom, chans, cap, maxB, devs, sec) ==
  [ now |-> 0, h |-> 1, sec |-> sec, nextB |-> 1, fee |-> 0, feeDenom |-> feeDenom,
    cap |-> cap, maxB |-> maxB, devs |-> [d \in devs |-> TRUE],
    cfg |-> EmptyMap,
    l1seq   |-> [k \in bridgeKeys |-> 1],
    nextOut |-> [k \in bridgeKeys |-> 1],
    outs    |-> [k \in bridgeKeys |-> EmptyMap],
    batch   |-> [k \in bridgeKeys |-> << >>],
    lastFinal |-> [k \in bridgeKeys |-> 0],
    pairs   |-> [k \in bridgeKeys |-> EmptyMap],
    claimed |-> [k \in bridgeKeys |-> EmptyMap],
    bal   |-> [a \in accts |-> [d \in denoms |-> IF a \in funded THEN amt0 ELSE 0]],
    stray |-> EmptyMap,
    chan  |-> [c \in chans |-> [seq |-> 0, admin |-> ""]] ]
InitState(bridgeKeys, accts, denoms, funded, amt0, feeDenom, chans, cap, maxB, devs) == InitStateSec(bridgeKeys, accts, denoms, funded, amt0, feeDenom, chans, cap, maxB, devs, 2)
=============================================================================
