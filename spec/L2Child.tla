------------------------------- MODULE L2Child -------------------------------
(***************************************************************************)
(* Specification of the OPinit L2 module x/opchild: bridge messages         *)
(* (keeper/msg_server.go, deposit.go, sequences.go, params.go), the          *)
(* and genesis.  The permissioned validator set is specified in ValSet.tla.   *)
(* Same style as L1Host: per handler X_G (named guards), X_E (effect),       *)
(* X_R (response); Step(s,e) is the deterministic transition function.       *)
(***************************************************************************)
EXTENDS Integers, Sequences, FiniteSets, TLC

Put(f, k, v) == [x \in (DOMAIN f) \cup {k} |-> IF x = k THEN v ELSE f[x]]
Del(f, k)    == [x \in (DOMAIN f) \ {k} |-> f[x]]
Has(f, k)    == k \in DOMAIN f
EmptyMap     == [x \in {} |-> 0]
K(n)         == ToString(n)
AllTrue(g)   == \A n \in DOMAIN g : g[n]
FalseOnes(g) == {n \in DOMAIN g : ~g[n]}
SeqToSet(q)  == {q[i] : i \in 1..Len(q)}
Max(S)       == CHOOSE x \in S : \A y \in S : y <= x

BadAddrs     == {"bad:empty", "bad:notbech32", "bad:space"}      \* "bad:space": a string of blanks - not empty, not an address
ValidAddr(a) == a \notin BadAddrs
NonEmpty(a)  == a # "bad:empty"
ValidDenom(d) == d # "bad:denom"
Authority == "opchild"                  \* the module account: authority of validator / params / fee-pool messages
Blocked   == {"opchild", "feecollector"} \* module accounts the bank refuses to send to
FeeCollector == "feecollector"

DEV_WithdrawOverU64 == "DEV_WithdrawOverU64"   \* C04: L2 accepts withdrawals the L1 can never pay (amount >= 2^64)
Dev(s, d) == d \in DOMAIN s.devs

----------------------------------------------------------------------------
(* ledger helpers: s.bal is a grid account x denom, s.supply per denom       *)
Bal(s, a, d) == IF Has(s.bal, a) /\ Has(s.bal[a], d) THEN s.bal[a][d] ELSE 0
Tracked(s, a, d) == Has(s.bal, a) /\ Has(s.bal[a], d)
MoveB(bal, from, to, d, n) ==
  IF n = 0 \/ from = to THEN bal
  ELSE [a \in DOMAIN bal |->
          IF a = from THEN [bal[a] EXCEPT ![d] = @ - n]
          ELSE IF a = to THEN [bal[a] EXCEPT ![d] = @ + n]
          ELSE bal[a]]
Credit(bal, to, d, n) == IF n = 0 THEN bal ELSE [bal EXCEPT ![to][d] = @ + n]
Debit(bal, from, d, n) == IF n = 0 THEN bal ELSE [bal EXCEPT ![from][d] = @ - n]

(* "up:<name>" is the same bech32 address written in upper case: another string for the same account.  Executors are     *)
(* compared as accounts (the stored strings are decoded), the admin as a string.                                        *)
UpperNames == {"up:e1", "up:e2", "up:e3", "up:u1", "up:u2", "up:adm"}
Acct(a) == CASE a = "up:e1" -> "e1" [] a = "up:e2" -> "e2" [] a = "up:e3" -> "e3" [] a = "up:u1" -> "u1" [] a = "up:u2" -> "u2" [] a = "up:adm" -> "adm" [] OTHER -> a
IsExecutor(s, a) == \E i \in 1..Len(s.params.execs) : Acct(s.params.execs[i]) = Acct(a)

----------------------------------------------------------------------------
(* Bridge hook attached to a deposit.  h.kind:                               *)
(*   "none"        no payload                                                *)
(*   "undecodable" bytes that are not a transaction                          *)
(*   "badSig"      a transaction whose signature does not verify             *)
(*   "msgs"        a well-signed transaction of h.signer carrying messages   *)
(*                 h.msgs = << m ... >>, each m one of                       *)
(*                   [kind |-> "send", to, denom, amt]      bank send; a send *)
(*                        to "panic" makes the bank handler panic            *)
(*                   [kind |-> "withdraw", to, denom, amt]  the signer's own  *)
(*                        MsgInitiateTokenWithdrawal back to the L1          *)
(* The hook runs with min(remaining gas, params.hookGas) where hookGas is    *)
(* one of "ample", "tiny" (below the cost of signature verification), "zero" *)
(* Its messages run in order on a branch of the state that is dropped as a   *)
(* whole when one of them fails; when all succeed the branch is committed    *)
(* and every withdrawal it made is announced like any other withdrawal.      *)
HookRuns(s, h) == h.kind # "none"
HookAnteOK(s, h) == h.kind = "msgs" /\ s.params.hookGas = "ample"

(* A hook message is an ordinary L2 message of the hook signer, executed by the same Step function on the   *)
(* branch:  "send" -> BankSend, "withdraw" -> InitiateTokenWithdrawal, "deposit" -> FinalizeTokenDeposit     *)
(* (only meaningful when the hook signer is an executor: a deposit delivered from inside a deposit's hook). *)
RECURSIVE Step(_, _)
NoHookRec == [kind |-> "none", signer |-> "", msgs |-> << >>]
HookEvent(signer, m, fault) ==
  CASE m.kind = "send"     -> [type |-> "BankSend", signer |-> signer, to |-> m.to, denom |-> m.denom, amt |-> m.amt]
    [] m.kind = "withdraw" -> [type |-> "InitiateTokenWithdrawal", signer |-> signer, to |-> m.to, denom |-> m.denom, amt |-> m.amt]
    [] m.kind = "deposit"  -> [type |-> "FinalizeTokenDeposit", signer |-> signer, seq |-> m.seq, from |-> m.from, to |-> m.to, denom |-> m.denom, amt |-> m.amt,
                               base |-> m.base, height |-> m.height, hook |-> (IF "hook" \in DOMAIN m THEN m.hook ELSE NoHookRec), fault |-> fault]   \* an injected bank fault is global to the transaction
WdOnly(w) == [seq |-> w.seq, from |-> w.from, to |-> w.to, denom |-> w.denom, base |-> w.base, amt |-> w.amt]
(* withdrawals / deposit events a successful step announces, in emission order *)
WdsOf(ev, r) ==
  IF ev.type = "InitiateTokenWithdrawal" THEN << r.resp.ev >>
  ELSE IF ev.type = "FinalizeTokenDeposit" /\ r.resp.result = "SUCCESS" THEN r.resp.hookWds \o (IF r.resp.wd.some THEN << WdOnly(r.resp.wd) >> ELSE << >>)
  ELSE << >>
DepsOf(ev, r) == IF ev.type = "FinalizeTokenDeposit" /\ r.resp.result = "SUCCESS" THEN r.resp.depEvs ELSE << >>
RECURSIVE RunHook(_, _, _, _, _)
RunHook(acc, signer, msgs, fault, i) ==
  \* acc = [ok, st, wds, deps]; the branch acc.st is dropped by the caller when ok is FALSE
  IF i > Len(msgs) THEN acc
  ELSE LET m == msgs[i] IN
       IF m.kind = "send" /\ m.to = "panic" THEN [acc EXCEPT !.ok = FALSE]        \* the bank handler panics
       ELSE LET ev == HookEvent(signer, m, fault)
                r == Step(acc.st, ev) IN
            IF ~r.ok THEN [acc EXCEPT !.ok = FALSE]
            ELSE RunHook([ok |-> TRUE, st |-> r.st, wds |-> acc.wds \o WdsOf(ev, r), deps |-> acc.deps \o DepsOf(ev, r)], signer, msgs, fault, i + 1)

----------------------------------------------------------------------------
(* FinalizeTokenDeposit                                                      *)
FinalizeTokenDeposit_G(s, e) ==
  [ valid     |-> ValidAddr(e.signer) /\ NonEmpty(e.from) /\ ValidDenom(e.denom) /\ e.amt >= 0
                  /\ ValidDenom(e.base) /\ e.seq # 0 /\ e.height # 0,
    executor  |-> IsExecutor(s, e.signer),
    seqIsNext |-> e.seq <= s.seqL1,          \* older sequences are a no-op, newer ones are rejected
    inGrid    |-> e.seq < s.seqL1 \/ ~ValidDenom(e.denom) \/ Has(s.supply, e.denom) ]  \* harness bound

DepositOutcome(s, e) ==
  \* what happens to a deposit at the expected sequence
  LET toOK     == ValidAddr(e.to)
      credited == toOK /\ (e.amt = 0 \/ (e.to \notin Blocked /\ e.fault = "none"))
      \* every processed deposit advances the L1 sequence and registers the denom (pair, metadata) - before the hook runs
      base0    == [s EXCEPT !.seqL1 = @ + 1,
                            !.pairs = IF Has(@, e.denom) THEN @ ELSE Put(@, e.denom, e.base),
                            !.meta  = IF Has(@, e.denom) THEN @ ELSE Put(@, e.denom, e.base)]
      pre      == IF credited
                  THEN [base0 EXCEPT !.bal = Credit(@, e.to, e.denom, e.amt),
                                     !.supply = IF e.amt > 0 THEN [@ EXCEPT ![e.denom] = @ + e.amt] ELSE @]
                  ELSE base0
      runs     == credited /\ HookRuns(s, e.hook)
      anteOK   == runs /\ HookAnteOK(s, e.hook)
      Seqd(st) == IF anteOK THEN [st EXCEPT !.acctSeq = [@ EXCEPT ![e.hook.signer] = @ + 1]] ELSE st    \* the ante handler's increment is not on the branch
      hook     == IF anteOK THEN RunHook([ok |-> TRUE, st |-> Seqd(pre), wds |-> << >>, deps |-> << >>], e.hook.signer, e.hook.msgs, e.fault, 1)
                  ELSE [ok |-> FALSE, st |-> pre, wds |-> << >>, deps |-> << >>]
      hookOK   == ~runs \/ (anteOK /\ hook.ok)
      refund   == ~credited \/ ~hookOK
  IN [credited |-> credited, runs |-> runs, anteOK |-> anteOK, hookOK |-> hookOK, refund |-> refund,
      st       |-> IF refund THEN [Seqd(base0) EXCEPT !.seqL2 = @ + 1] ELSE IF anteOK THEN hook.st ELSE pre,
      hookWds  |-> IF ~refund /\ anteOK THEN hook.wds ELSE << >>,
      hookDeps |-> IF ~refund /\ anteOK THEN hook.deps ELSE << >>]

FinalizeTokenDeposit_E(s, e) == IF e.seq < s.seqL1 THEN s ELSE DepositOutcome(s, e).st
FinalizeTokenDeposit_R(s, e) ==
  IF e.seq < s.seqL1 THEN [result |-> "NOOP"]
  ELSE LET o == DepositOutcome(s, e)
           base == IF Has(s.pairs, e.denom) THEN s.pairs[e.denom] ELSE e.base IN
    [result |-> "SUCCESS",
     ev |-> [seq |-> e.seq, from |-> e.from, to |-> e.to, denom |-> e.denom, base |-> e.base, amt |-> e.amt,
             height |-> e.height, success |-> ~o.refund],
     wd |-> IF o.refund
            THEN [some |-> TRUE, seq |-> s.seqL2, from |-> e.to, to |-> e.from, denom |-> e.denom, base |-> base, amt |-> e.amt]
            ELSE [some |-> FALSE],
     hookWds |-> o.hookWds,   \* withdrawals made by the hook's own messages, announced in order like any other withdrawal
     depEvs  |-> o.hookDeps \o << [seq |-> e.seq, denom |-> e.denom, amt |-> e.amt, success |-> ~o.refund] >>,   \* every finalize_token_deposit event of the transaction (deposits delivered by the hook first)
     hookGasOK |-> TRUE]      \* the handler charges at most params.hookGas for the hook (measured differentially by the harness)

----------------------------------------------------------------------------
(* InitiateTokenWithdrawal                                                   *)
InitiateTokenWithdrawal_G(s, e) ==
  [ valid         |-> ValidAddr(e.signer) /\ NonEmpty(e.to) /\ ValidDenom(e.denom),
    positive      |-> e.amt > 0,
    fitsU64       |-> Dev(s, DEV_WithdrawOverU64) \/ e.amt <= s.cap,
    balanceCovers |-> (ValidAddr(e.signer) /\ ValidDenom(e.denom)) => Bal(s, e.signer, e.denom) >= e.amt,
    pairKnown     |-> Has(s.pairs, e.denom) ]
InitiateTokenWithdrawal_E(s, e) ==
  [s EXCEPT !.bal = Debit(@, e.signer, e.denom, e.amt),
            !.supply = [@ EXCEPT ![e.denom] = @ - e.amt],
            !.seqL2 = @ + 1]
InitiateTokenWithdrawal_R(s, e) ==
  [seq |-> s.seqL2,
   ev |-> [seq |-> s.seqL2, from |-> e.signer, to |-> e.to, denom |-> e.denom, base |-> s.pairs[e.denom], amt |-> e.amt]]

----------------------------------------------------------------------------
(* SetBridgeInfo: the binding (id, addr, chain id, client id once set) can never be re-pointed *)
SetBridgeInfo_G(s, e) ==
  LET i == s.bridgeInfo n == e.info IN
  [ valid       |-> ValidAddr(e.signer) /\ n.id # 0 /\ n.addr # "" /\ n.cfgOK,
    executor    |-> IsExecutor(s, e.signer),
    bindingSame |-> ~i.set \/ (i.id = n.id /\ i.addr = n.addr /\ i.chain = n.chain /\ (i.client = "" \/ i.client = n.client)) ]
SetBridgeInfo_E(s, e) == [s EXCEPT !.bridgeInfo = [set |-> TRUE, id |-> e.info.id, addr |-> e.info.addr, chain |-> e.info.chain,
                                                   client |-> e.info.client, oracle |-> e.info.oracle]]
SetBridgeInfo_R(s, e) == [id |-> e.info.id, addr |-> e.info.addr, chain |-> e.info.chain, client |-> e.info.client]

----------------------------------------------------------------------------
(* parameter / fee-pool / batched execution                                  *)
NVals(s) == s.nvals       \* number of validator records (validator-set behaviour is specified in ValSet.tla)
ParamsValid(p) == ValidAddr(p.admin) /\ (\A i \in 1..Len(p.execs) : ValidAddr(p.execs[i])) /\ p.maxVals > 0 /\ (\A i \in 1..Len(p.fw) : ValidAddr(p.fw[i]))
UpdateParams_G(s, e) ==
  [ valid     |-> ValidAddr(e.signer) /\ ParamsValid(e.params),
    authority |-> e.signer = Authority,
    capacity  |-> e.params.maxVals >= NVals(s) ]
UpdateParams_E(s, e) == [s EXCEPT !.params = e.params]
UpdateParams_R(s, e) == [ok |-> TRUE]

SpendFeePool_G(s, e) ==
  [ valid     |-> ValidAddr(e.signer) /\ ValidAddr(e.to) /\ ValidDenom(e.denom) /\ e.amt > 0,    \* a coin list with a zero entry is not valid
    authority |-> e.signer = Authority,
    covered   |-> (ValidAddr(e.to) /\ ValidDenom(e.denom)) => (Bal(s, FeeCollector, e.denom) >= e.amt /\ e.to \notin Blocked) ]
SpendFeePool_E(s, e) == [s EXCEPT !.bal = MoveB(@, FeeCollector, e.to, e.denom, e.amt)]
SpendFeePool_R(s, e) == [ok |-> TRUE]

BankSend_G(s, e) ==
  [ valid |-> ValidAddr(e.signer) /\ ValidAddr(e.to) /\ ValidDenom(e.denom) /\ e.amt > 0 /\ e.to \notin Blocked
              /\ Tracked(s, e.signer, e.denom) /\ Tracked(s, e.to, e.denom),
    funds |-> Bal(s, e.signer, e.denom) >= e.amt ]
BankSend_E(s, e) == [s EXCEPT !.bal = MoveB(@, e.signer, e.to, e.denom, e.amt)]
BankSend_R(s, e) == [amt |-> e.amt]

----------------------------------------------------------------------------
(* ExecuteMessages: the admin submits messages whose only signer must be the module authority; *)
(* they run on a branch that is written back only if all of them succeed.                       *)
InnerGuards(s, m) ==
  CASE m.type = "UpdateParams" -> UpdateParams_G(s, m)
    [] m.type = "SpendFeePool" -> SpendFeePool_G(s, m)
    [] m.type = "BankSend"     -> BankSend_G(s, m)
InnerEffect(s, m) ==
  CASE m.type = "UpdateParams" -> UpdateParams_E(s, m)
    [] m.type = "SpendFeePool" -> SpendFeePool_E(s, m)
    [] m.type = "BankSend"     -> BankSend_E(s, m)
RECURSIVE RunInner(_, _, _)
RunInner(s, msgs, i) ==
  IF i > Len(msgs) THEN [ok |-> TRUE, st |-> s]
  ELSE IF msgs[i].signer # Authority \/ ~AllTrue(InnerGuards(s, msgs[i])) THEN [ok |-> FALSE, st |-> s]
  ELSE RunInner(InnerEffect(s, msgs[i]), msgs, i + 1)
ExecuteMessages_G(s, e) ==
  [ valid       |-> ValidAddr(e.signer) /\ Len(e.msgs) > 0,
    admin       |-> e.signer = s.params.admin,
    innerSigner |-> \A i \in 1..Len(e.msgs) : e.msgs[i].signer = Authority,
    innerOK     |-> (\A i \in 1..Len(e.msgs) : e.msgs[i].signer = Authority) => RunInner(s, e.msgs, 1).ok ]
ExecuteMessages_E(s, e) == RunInner(s, e.msgs, 1).st
ExecuteMessages_R(s, e) == [n |-> Len(e.msgs)]

ExportImport_G(s, e) == [ valid |-> TRUE ]
ExportImport_E(s, e) == s
ExportImport_R(s, e) == [same |-> TRUE]

(* gRPC queries of the bridge part of x/opchild (keeper/querier.go); validator queries are in ValSet.tla *)
Query_G(s, e) ==
  [ found |-> CASE e.q = "BaseDenom"  -> Has(s.pairs, e.denom)         \* ErrNonL1Token otherwise
                [] e.q = "BridgeInfo" -> s.bridgeInfo.set             \* NotFound until an executor has set it
                [] OTHER              -> TRUE ]
Query_R(s, e) ==
  CASE e.q = "NextL1Sequence" -> [v |-> s.seqL1]
    [] e.q = "NextL2Sequence" -> [v |-> s.seqL2]
    [] e.q = "BaseDenom"      -> [v |-> s.pairs[e.denom]]
    [] e.q = "BridgeInfo"     -> [id |-> s.bridgeInfo.id, addr |-> s.bridgeInfo.addr, chain |-> s.bridgeInfo.chain, client |-> s.bridgeInfo.client, oracle |-> s.bridgeInfo.oracle]
    [] e.q = "Params"         -> s.params

----------------------------------------------------------------------------
Guards(s, e) ==
  CASE e.type = "FinalizeTokenDeposit"    -> FinalizeTokenDeposit_G(s, e)
    [] e.type = "InitiateTokenWithdrawal" -> InitiateTokenWithdrawal_G(s, e)
    [] e.type = "SetBridgeInfo"           -> SetBridgeInfo_G(s, e)
    [] e.type = "UpdateParams"            -> UpdateParams_G(s, e)
    [] e.type = "SpendFeePool"            -> SpendFeePool_G(s, e)
    [] e.type = "BankSend"                -> BankSend_G(s, e)
    [] e.type = "ExecuteMessages"         -> ExecuteMessages_G(s, e)
    [] e.type = "ExportImport"            -> ExportImport_G(s, e)
    [] e.type = "Query"                   -> Query_G(s, e)
Effect(s, e) ==
  CASE e.type = "FinalizeTokenDeposit"    -> FinalizeTokenDeposit_E(s, e)
    [] e.type = "InitiateTokenWithdrawal" -> InitiateTokenWithdrawal_E(s, e)
    [] e.type = "SetBridgeInfo"           -> SetBridgeInfo_E(s, e)
    [] e.type = "UpdateParams"            -> UpdateParams_E(s, e)
    [] e.type = "SpendFeePool"            -> SpendFeePool_E(s, e)
    [] e.type = "BankSend"                -> BankSend_E(s, e)
    [] e.type = "ExecuteMessages"         -> ExecuteMessages_E(s, e)
    [] e.type = "ExportImport"            -> ExportImport_E(s, e)
    [] e.type = "Query"                   -> s
Resp(s, e) ==
  CASE e.type = "FinalizeTokenDeposit"    -> FinalizeTokenDeposit_R(s, e)
    [] e.type = "InitiateTokenWithdrawal" -> InitiateTokenWithdrawal_R(s, e)
    [] e.type = "SetBridgeInfo"           -> SetBridgeInfo_R(s, e)
    [] e.type = "UpdateParams"            -> UpdateParams_R(s, e)
    [] e.type = "SpendFeePool"            -> SpendFeePool_R(s, e)
    [] e.type = "BankSend"                -> BankSend_R(s, e)
    [] e.type = "ExecuteMessages"         -> ExecuteMessages_R(s, e)
    [] e.type = "ExportImport"            -> ExportImport_R(s, e)
    [] e.type = "Query"                   -> Query_R(s, e)

NoResp == [none |-> TRUE]
Step(s, e) ==
  LET g == Guards(s, e) ok == AllTrue(g) IN
  [ ok     |-> ok,
    st     |-> IF ok THEN Effect(s, e) ELSE s,
    resp   |-> IF ok THEN Resp(s, e) ELSE NoResp,
    failed |-> FalseOnes(g) ]

(* accounts x denoms grid; `funded` maps account -> denom -> units held at genesis (native tokens) *)
InitState(accts, denoms, natives, funded, params, cap, devs) ==
  [ seqL1 |-> 1, seqL2 |-> 1, cap |-> cap, devs |-> [d \in devs |-> TRUE],
    pairs |-> EmptyMap, meta |-> [d \in natives |-> d],      \* native L2 tokens carry bank metadata of their own
    bal    |-> [a \in accts |-> [d \in denoms |-> IF Has(funded, a) /\ Has(funded[a], d) THEN funded[a][d] ELSE 0]],
    supply |-> [d \in denoms |-> LET S == {a \in DOMAIN funded : Has(funded[a], d)} IN
                                  IF S = {} THEN 0 ELSE LET RECURSIVE Sum(_) Sum(T) == IF T = {} THEN 0 ELSE LET x == CHOOSE y \in T : TRUE IN funded[x][d] + Sum(T \ {x}) IN Sum(S)],
    acctSeq |-> [a \in accts |-> 0],
    params |-> params, nvals |-> 0,
    bridgeInfo |-> [set |-> FALSE, id |-> 0, addr |-> "", chain |-> "", client |-> "", oracle |-> FALSE],
    stray |-> EmptyMap ]
=============================================================================
