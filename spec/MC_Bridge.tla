------------------------------ MODULE MC_Bridge ------------------------------
(* Bounded instance of Bridge.tla: one bridge, two users, one or two denoms, a budget of user operations, *)
(* relays with duplicates and delays, proposals, one challenge with re-proposal, claims in any order.       *)
EXTENDS Bridge, Json

CONSTANTS Fam, Tier, Devs, FailCap
VARIABLES st, last
vars == <<st, last>>
Thorough == Tier = "thorough"

L1Accts  == {"gov", "p1", "c1", "u1", "u2", "x", "esc1", "esc2", "pool"}
L1Denoms == {"d1", "d2"}
L2Accts  == {"e1", "adm", "u1", "u2", "x", "opchild", "feecollector"}
L2Denoms == {"l2/1/d1", "l2/1/d2"}
Params0  == [admin |-> "adm", execs |-> <<"e1">>, maxVals |-> 3, histEntries |-> 1, hookGas |-> "ample", fw |-> << >>]
Cap == 3

S0 == [ l1 |-> L1!InitState({"1", "2"}, L1Accts, L1Denoms, {"u1", "u2"}, 4, "d1", {"ch1"}, Cap, 1, Devs),
        l2 |-> L2!InitState(L2Accts, L2Denoms, {}, [x \in {} |-> 0], Params0, Cap, Devs),
        deps |-> << >>, wds |-> << >>, trees |-> [x \in {} |-> 0] ]

Create == [chain |-> "L1", e |-> [type |-> "CreateBridge", signer |-> "x", cfg |->
             [proposer |-> "p1", challenger |-> "c1", period |-> 2, interval |-> 2, startH |-> 1, oracle |-> FALSE,
              meta |-> [cls |-> "none", chs |-> << >>], bsub |-> "s1", bchain |-> "INITIA"]]]

Dens == {"d1", "d2"}
Events(s) ==
  IF ~Has(s.l1.cfg, "1") THEN {Create}
  ELSE
    (IF Len(s.deps) < 2      \* measured: a third deposit gives 6*10^5 states / 8*10^6 transitions even with two withdrawals - beyond what E2 replays in the time allowed
    
     THEN {UserDeposit("u1", "u1", d, 2) : d \in Dens} \cup {UserDeposit("u2", "bad:space", "d1", 1), UserDeposit("u1", "u2", "d1", 4)}     \* a recipient of blanks: refunded, and the refund names it as the L2 sender
          \cup {UserDepositD("u1", "u2", "d1", 2, h) : h \in {"hw", "hwf", "hu"}}
          \cup {UserDepositD("u1", "bad:empty", "d1", 2, "hu")} ELSE {})          \* no recipient but a payload: the L1 must not take what the bridge cannot complete
    \cup {Relay(s, a, q) : a \in {"e1"}, q \in 1..Len(s.deps)}
    \cup (IF Len(s.deps) >= 1 THEN {Relay(s, "x", 1)} ELSE {})
    \cup (IF Len(s.wds) < (IF Thorough THEN 3 ELSE 2)
          THEN {UserWithdraw("u1", "u2", d, 1) : d \in Dens} \cup {UserWithdraw("u2", "u2", "d1", 1), UserWithdraw("u1", "u2", "d1", 4)} ELSE {})
    \cup (IF Thorough THEN {UserWithdraw("u1", "bad:notbech32", "d1", 1)} ELSE {})
    \cup (IF s.l2.bal["u1"][L2D("d1")] >= 2 THEN {L2Transfer("u1", "u2", "d1", 1)} ELSE {})
    \cup (IF Len(s.wds) >= 1 /\ s.l1.nextOut["1"] <= 2 THEN {Propose(s, "p1")} ELSE {})
    \cup (IF s.l1.now < 4 THEN {Advance(2)} ELSE {})
    \cup {Challenge("c1", 1)}
    \cup (IF s.l1.now >= 4 THEN {[chain |-> c, e |-> [type |-> "ExportImport"]] : c \in {"L1", "L2"}} ELSE {})   \* either chain restarts from its exported genesis; the walker re-executes every enabled event on it
    \cup {Claim(s, "x", i, out) : i \in 1..Len(s.wds), out \in {o \in 1..2 : Has(s.trees, K(o))}}

ASSUME PrintT("META " \o ToJson([l1 |-> [bkeys |-> {"1", "2"}, accts |-> L1Accts, denoms |-> L1Denoms, funded |-> {"u1", "u2"}, amt0 |-> 4, chans |-> {"ch1"}, devs |-> Devs, maxB |-> 1, feeDenom |-> "d1"],
                                   l2 |-> [accts |-> L2Accts, denoms |-> L2Denoms, funded |-> [x \in {} |-> 0], params |-> Params0, devs |-> Devs]]))

Init == /\ st = S0
        /\ last = [e |-> [chain |-> "L1", e |-> [type |-> "Init"]], ok |-> TRUE, resp |-> [none |-> TRUE], failed |-> {}]
Next == \E e \in Events(st) :
          LET r == Step(st, e) IN
            /\ st' = r.st
            /\ last' = [e |-> e, ok |-> r.ok, resp |-> r.resp, failed |-> r.failed]
Spec == Init /\ [][Next]_vars
View == st
Emit ==
  \/ ~last'.ok /\ Cardinality(last'.failed) > FailCap /\ TLCGet("level") % 5 # 0     \* rejected transitions that fail more than FailCap guards are emitted from every fifth BFS level only
  \/ PrintT("EDGE " \o ToJson([from |-> st, e |-> last'.e, ok |-> last'.ok, resp |-> last'.resp,
                                failed |-> last'.failed, to |-> IF last'.ok THEN st' ELSE [same |-> TRUE]]))

Inv_Solvency == Solvency(st, L1Denoms)
Inv_Completeness == Completeness(st)
Inv_NoStuck == NoStuckTransfer(st)
(* every claim is paid at most once and users' combined holdings are conserved *)
Holdings(s, d) == SumIdx([i \in 1..2 |-> s.l1.bal[IF i = 1 THEN "u1" ELSE "u2"][d] + s.l2.bal[IF i = 1 THEN "u1" ELSE "u2"][L2D(d)]], {1, 2}) + InFlight(s, d) + Unpaid(s, d)
Inv_Holdings == \A d \in L1Denoms : Holdings(st, d) = 8
Flow(s, o, t) == FlowOver(s, o, t, {"u1", "u2"}, L1Denoms)
NextOutcome == [e |-> last'.e, ok |-> last'.ok, resp |-> last'.resp, failed |-> last'.failed]
P_Flow == [][Flow(st, NextOutcome, st')]_vars
Inv_DrainedOK == Drained(st) => \A d \in L1Denoms : Escrow(st, d) = Supply2(st, d) + SumIdx([i \in 1..Len(st.wds) |-> st.wds[i].amt], {i \in 1..Len(st.wds) : st.wds[i].base = d /\ ~Claimed(st, st.wds[i])})
=============================================================================
