---------------------------- MODULE Trace_Replicas ----------------------------
(* Checks Replicas!Agreement on a history recorded from K real instances: every line of the trace is   *)
(* one log position with the digests (hash of the raw key/value dump of every module store) and the    *)
(* output hashes (result, error text, response bytes, ordered events, ordered validator updates) of    *)
(* all replicas.  Disagreements are printed, not raised, so the whole trace is always examined.        *)
EXTENDS Integers, Sequences, TLC, Json

CONSTANT TraceFile
Trace == ndJsonDeserialize(TraceFile)

AllSame(q) == \A i \in 1..Len(q) : q[i] = q[1]
AgreementAt(line) == AllSame(line.digests) /\ AllSame(line.outs)

ASSUME \A i \in 1..Len(Trace) :
         AgreementAt(Trace[i]) \/ PrintT("DISAGREE " \o ToJson([line |-> i, path |-> Trace[i].path, pos |-> Trace[i].pos, event |-> Trace[i].event,
                                                                   digests |-> Trace[i].digests, outs |-> Trace[i].outs]))
ASSUME PrintT("REPLICAS " \o ToJson([lines |-> Len(Trace), replicas |-> IF Len(Trace) > 0 THEN Len(Trace[1].digests) ELSE 0,
                                       disagreements |-> Len(SelectSeq(Trace, LAMBDA x : ~AgreementAt(x)))]))
VARIABLE dummy
Init == dummy = 0
Next == UNCHANGED dummy
Spec == Init /\ [][Next]_dummy
=============================================================================
