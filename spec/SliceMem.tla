------------------------------- MODULE SliceMem -------------------------------
(***************************************************************************)
(* Memory-level model of how the root-from-proof fold                       *)
(* (x/ophost/types/output.go: GenerateRootHashFromProofs / GenerateNodeHash) *)
(* treats the caller's proof items.  Memory is modelled at the granularity  *)
(* of 32-byte blocks: a buffer is a sequence of blocks, a Go slice is        *)
(* [buf, off, len, cap] in blocks.  Go's append(dst, src...) writes into     *)
(* dst's backing array when len(dst)+len(src) <= cap(dst) and allocates a    *)
(* fresh array otherwise.                                                    *)
(*                                                                         *)
(* HowPreimage = "fresh"   : the 64-byte preimage is built in a new buffer   *)
(*             = "append"  : append(lower, higher...) on the caller's slice  *)
(* A layout assigns every proof item a slice; the fold's comparison          *)
(* outcomes (data < proof_i or not) are chosen nondeterministically because  *)
(* they depend on hash values.                                               *)
(***************************************************************************)
EXTENDS Integers, Sequences, FiniteSets, TLC, Json

CONSTANTS HowPreimage, NItems

(* layouts of NItems proof items *)
ItemLayouts == {"own-exact", "own-spare", "shared"}   \* own buffer cap=len | own buffer with one spare block | consecutive sub-slices of one buffer
Layouts == [1..NItems -> ItemLayouts]

VARIABLES layout, mem, items, data, step, cmps, wrote
vars == <<layout, mem, items, data, step, cmps, wrote>>

(* initial memory for a layout: block values are the symbolic names "P1".."Pn"; spare blocks hold "-" *)
SharedIdx(l) == {i \in 1..NItems : l[i] = "shared"}
RankIn(S, i) == Cardinality({j \in S : j <= i})
InitMem(l) ==
  [b \in {"S"} \cup {"B" \o ToString(i) : i \in 1..NItems} |->
     IF b = "S" THEN [k \in 1..Cardinality(SharedIdx(l)) |-> "P" \o ToString(CHOOSE i \in SharedIdx(l) : RankIn(SharedIdx(l), i) = k)]
     ELSE LET i == CHOOSE j \in 1..NItems : b = "B" \o ToString(j) IN
          IF l[i] = "own-exact" THEN << "P" \o ToString(i) >>
          ELSE IF l[i] = "own-spare" THEN << "P" \o ToString(i), "-" >> ELSE << >>]
InitItems(l) ==
  [i \in 1..NItems |->
     IF l[i] = "shared"
     THEN [buf |-> "S", off |-> RankIn(SharedIdx(l), i), len |-> 1, cap |-> Cardinality(SharedIdx(l)) - RankIn(SharedIdx(l), i) + 1]
     ELSE [buf |-> "B" \o ToString(i), off |-> 1, len |-> 1, cap |-> IF l[i] = "own-spare" THEN 2 ELSE 1]]

Init == /\ layout \in Layouts
        /\ mem = InitMem(layout)
        /\ items = InitItems(layout)
        /\ data = "L"                 \* running value: symbolic term
        /\ step = 1
        /\ cmps = << >>
        /\ wrote = FALSE

Val(it) == mem[it.buf][it.off]
(* one iteration: data := Node(data, proof[step]); lt = (data < proof) *)
Fold(lt) ==
  LET it == items[step]
      pv == Val(it)
      new == "N(" \o data \o "," \o pv \o ")"
      \* the running value lives in a local 32-byte array: cap 1, append(data, proof...) always reallocates.
      \* append(proof, data...) writes the running value behind the proof item when the item has spare capacity.
      inplace == HowPreimage = "append" /\ ~lt /\ it.cap >= 2
  IN /\ mem' = IF inplace THEN [mem EXCEPT ![it.buf][it.off + 1] = data] ELSE mem
     /\ wrote' = (wrote \/ inplace)
     /\ data' = new
     /\ cmps' = Append(cmps, lt)
     /\ step' = step + 1
     /\ UNCHANGED <<layout, items>>
Next == step <= NItems /\ \E lt \in BOOLEAN : Fold(lt)
Spec == Init /\ [][Next]_vars

Done == step = NItems + 1
(* the caller's proof bytes are never modified *)
Pure == \A i \in 1..NItems : Val(items[i]) = "P" \o ToString(i)
(* the result depends only on the values: it is the fold over the ORIGINAL values *)
RECURSIVE Expect(_, _)
Expect(acc, i) == IF i > NItems THEN acc ELSE Expect("N(" \o acc \o ",P" \o ToString(i) \o ")", i + 1)
LayoutFree == Done => data = Expect("L", 1)

(* emit every complete behaviour for replay on the real function *)
EmitDone == (Done /\ PrintT("LAYOUT " \o ToJson([layout |-> layout, cmps |-> cmps, wrote |-> wrote]))) \/ ~Done
=============================================================================
