------------------------------- MODULE Replicas -------------------------------
(***************************************************************************)
(* Determinism (C18) as state-machine replication: K replicas start from     *)
(* the same genesis and apply the same log of blocks/messages.  A replica is *)
(* a position in the log, a state digest and the list of outputs it produced *)
(* (response or error, ordered events, ordered validator updates).           *)
(* Apply is a function of (digest, entry) in the specification; the          *)
(* constant Nondet lets the model contain one entry whose result depends on  *)
(* a per-replica choice (runtime map iteration order), to show that          *)
(* Agreement can fail and what the trace check looks for.                    *)
(***************************************************************************)
EXTENDS Integers, Sequences, FiniteSets, TLC

CONSTANTS K, LogLen, Nondet
Replica == 1..K
Entries == {"msgA", "msgB", "block"}

VARIABLES log, pos, digest, outs
vars == <<log, pos, digest, outs>>

(* abstract deterministic transition: digests are sequences of applied entries (injective) *)
Apply(d, e) == Append(d, e)
Out(d, e)   == <<e, Len(d)>>

Init == /\ log \in [1..LogLen -> Entries]
        /\ pos = [r \in Replica |-> 0]
        /\ digest = [r \in Replica |-> << >>]
        /\ outs = [r \in Replica |-> << >>]

Step(r) ==
  /\ pos[r] < LogLen
  /\ LET e == log[pos[r] + 1] IN
       \E choice \in (IF Nondet /\ e = "block" THEN {0, 1} ELSE {0}) :
         /\ digest' = [digest EXCEPT ![r] = Apply(@, IF choice = 0 THEN e ELSE e \o "'")]
         /\ outs'   = [outs EXCEPT ![r] = Append(@, Out(digest[r], e))]
  /\ pos' = [pos EXCEPT ![r] = @ + 1]
  /\ UNCHANGED log
Next == \E r \in Replica : Step(r)
Spec == Init /\ [][Next]_vars

(* replicas at the same position agree on state and on everything they output *)
Agreement == \A r1, r2 \in Replica : pos[r1] = pos[r2] => (digest[r1] = digest[r2] /\ outs[r1] = outs[r2])
=============================================================================
