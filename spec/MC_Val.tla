------------------------------- MODULE MC_Val -------------------------------
(***************************************************************************)
(* Bounded instances of ValSet: families                                    *)
(*   "valset" : C13  add / remove / max-validators / retention changes in   *)
(*              every grouping over blocks, from several genesis sets       *)
(*   "plan"   : C14  executor-change plans (new / known operator, new /     *)
(*              used key) applied to the reachable validator-set states     *)
(***************************************************************************)
EXTENDS ValSet, Json

CONSTANTS Fam, Tier, Devs, FailCap
VARIABLES st, last
vars == <<st, last>>
Thorough == Tier = "thorough"

Ops  == {"v1", "v2", "v3"}
Keys == {"k1", "k2", "k3"}
Rank == [v1 |-> 1, v2 |-> 2, v3 |-> 3]
P(maxVals, hist) == [admin |-> "adm", execs |-> <<"e1">>, maxVals |-> maxVals, histEntries |-> hist, hookGas |-> "ample", fw |-> << >>]
Params0 == P(3, 1)
V(op, key, power) == [op |-> op, key |-> key, power |-> power]

MaxH == IF Thorough THEN 4 ELSE 3

GenSets == { << >>, << V("v1", "k1", 1) >>, << V("v1", "k1", 1), V("v2", "k2", 1) >>, << V("v2", "k2", 0) >>,
             << V("v1", "k1", 1), V("v2", "k2", 0) >>, << V("v1", "k1", 1), V("v2", "k1", 1) >>,
             << V("v1", "k1", 1), V("v2", "k1", 0) >>,       \* a zero-power entry sharing the key of a live validator
             << V("v1", "k1", 1), V("v2", "k2", 0 - 1) >> }  \* a negative power (ValidateGenesis does not look at powers): never bonded, dropped like a zero
Genesis(params) == {[type |-> "InitGenesis", params |-> p, vals |-> g] : p \in params, g \in GenSets}

WouldEmpty(s) ==
  \* EndBlock would leave the consensus engine without validators (outside the property's domain)
  LET hk == K(s.height)
      s1 == IF Has(s.plans, hk) THEN ChangeExecutor(s, s.plans[hk]) ELSE s
      a  == Apply(s1.vals, s1.cons, s1.lastPow, s.rank)
  IN ~a.panic /\ Len(a.batch) > 0 /\ s.comet # EmptyMap /\
     {k \in DOMAIN s.comet : ~\E i \in 1..Len(a.batch) : a.batch[i].key = k /\ a.batch[i].power = 0}
       \cup {a.batch[i].key : i \in {j \in 1..Len(a.batch) : a.batch[j].power > 0}} = {}

Blocks(s) ==
  (IF s.phase = "out" /\ s.height < MaxH THEN {[type |-> "BeginBlock"]} ELSE {})
  \cup (IF s.phase = "in" /\ ~WouldEmpty(s) THEN {[type |-> "EndBlock"]} ELSE {})

Adds(signers, ops, keys) == {[type |-> "AddValidator", signer |-> a, op |-> o, key |-> k] : a \in signers, o \in ops, k \in keys}
Removes(signers, ops) == {[type |-> "RemoveValidator", signer |-> a, op |-> o] : a \in signers, o \in ops}
Upd(signer, p) == [type |-> "UpdateParams", signer |-> signer, params |-> p]

ValsetEvents(s) ==
  IF s.phase = "pre" THEN Genesis({P(2, 1), P(1, 1)} \cup (IF Thorough THEN {P(3, 2), P(2, 0)} ELSE {}))
                          \cup {[type |-> "InitGenesis", params |-> P(3, 1), vals |-> << V("v1", "k1", 1), V("v2", "k2", 1), V("v3", "k3", 1) >>]}
  ELSE Blocks(s)
       \cup (IF s.phase = "in"
             THEN Adds({"opchild"}, Ops, IF Thorough THEN Keys ELSE {"k1", "k2"}) \cup Adds({"x"}, {"v3"}, {"k3"})
                  \cup Removes({"opchild"}, Ops) \cup Removes({"x"}, {"v1"})
                  \cup {Upd("opchild", [s.params EXCEPT !.maxVals = n]) : n \in {1, 2} \ {s.params.maxVals}}
                  \cup {Upd("opchild", [s.params EXCEPT !.histEntries = n]) : n \in (IF Thorough THEN {0, 1, 2} ELSE {0, 2}) \ {s.params.histEntries}}
             ELSE {})
       \cup (IF s.height >= 1 /\ (s.phase = "out" \/ DOMAIN s.lastPow # {o \in DOMAIN s.vals : s.vals[o].power > 0}) THEN {[type |-> "ExportImport"]} ELSE {})

Plans(s) ==
  {[type |-> "RegisterPlan", id |-> 1, height |-> h, op |-> o, key |-> k, execs |-> x] :
      h \in {s.height + 1, s.height + 2} \cap 1..MaxH, o \in {"v1", "v3"}, k \in {"k1", "k3"}, x \in {<<"e2">>, <<"e2", "e3">>}}
  \cup {[type |-> "RegisterPlan", id |-> 1, height |-> h, op |-> "v3", key |-> "k3", execs |-> x] :       \* the same executor named twice; an executor spelled in upper case
      h \in {s.height + 1} \cap 1..MaxH, x \in {<<"e2", "e2">>, <<"up:e2">>, << >>}}                \* ... and a plan that names no executor at all: nobody holds the role afterwards
  \cup {[type |-> "RegisterPlan", id |-> i, height |-> h, op |-> o, key |-> k, execs |-> x] :
      i \in {0, 1}, h \in {0, s.height + 1}, o \in {"v3", "bad:notbech32"}, k \in {"k3", "nil"}, x \in {<<"e2">>, <<"bad:notbech32">>}}
PlanEvents(s) ==
  IF s.phase = "pre" THEN Genesis({P(2, 1), P(1, 1)})
                          \cup {[type |-> "InitGenesis", params |-> P(2, 1), vals |-> << V("v1", "k1", 5) >>]}     \* a genesis validator whose power is not 1: a plan that re-appoints it changes a positive power
  ELSE Blocks(s)
       \cup (IF s.phase = "in" THEN Adds({"opchild"}, {"v1", "v2"}, {"k1", "k2"}) \cup Removes({"opchild"}, {"v1"}) ELSE {})
       \cup (IF Cardinality(DOMAIN s.plans) < 1 THEN Plans(s) ELSE {})
       \cup (IF s.phase = "out" THEN {[type |-> "ExecProbe", signer |-> a] : a \in {"e1", "e2"}} ELSE {})     \* does the account hold the executor role now?

Events(s) == CASE Fam = "valset" -> ValsetEvents(s) [] Fam = "plan" -> PlanEvents(s)

S0 == InitState(Params0, Rank)
ASSUME PrintT("META " \o ToJson([ops |-> <<"v1", "v2", "v3">>, keys |-> Keys, params |-> Params0,
                                   accts |-> {"adm", "e1", "e2", "e3", "x", "opchild", "feecollector"}, denoms |-> {"n1"}, funded |-> [x |-> [n1 |-> 1]], devs |-> Devs]))

Init == /\ st = S0
        /\ last = [e |-> [type |-> "Init"], ok |-> TRUE, resp |-> NoResp, failed |-> {}]
Next == \E e \in Events(st) :
          LET r == Step(st, e) IN
            /\ st' = r.st
            /\ last' = [e |-> e, ok |-> r.ok, resp |-> r.resp, failed |-> r.failed]
Spec == Init /\ [][Next]_vars
View == st
Emit ==
  \/ ~last'.ok /\ Cardinality(last'.failed) > FailCap /\ TLCGet("level") % 5 # 0
  \/ PrintT("EDGE " \o ToJson([from |-> st, e |-> last'.e, ok |-> last'.ok, resp |-> last'.resp,
                                failed |-> last'.failed, to |-> IF last'.ok THEN st' ELSE [same |-> TRUE]]))

----------------------------------------------------------------------------
(* Properties.  Good(s) is the conjunction C13 promises after every block; it is checked         *)
(* inductively (established by genesis, preserved by every step) so that a state reached through *)
(* a recorded deviation (a plan that reuses an operator or a key: known findings) does not make    *)
(* every later state a counterexample.                                                            *)
KeyOf(s, o) == s.vals[o].key
IndexBijective(s) ==
  /\ \A o \in DOMAIN s.vals : Has(s.cons, KeyOf(s, o)) /\ s.cons[KeyOf(s, o)] = o
  /\ \A k \in DOMAIN s.cons : Has(s.vals, s.cons[k]) /\ KeyOf(s, s.cons[k]) = k
Capacity(s) == Cardinality(DOMAIN s.vals) <= s.params.maxVals /\ Cardinality(DOMAIN s.lastPow) <= s.params.maxVals
AgreesOut(s) ==
  /\ s.comet = [k \in {KeyOf(s, o) : o \in Bonded(s)} |-> LET o == CHOOSE x \in Bonded(s) : KeyOf(s, x) = k IN s.vals[o].power]
  /\ s.lastPow = [o \in Bonded(s) |-> s.vals[o].power]
  /\ \A o \in DOMAIN s.vals : s.vals[o].power > 0          \* a removed validator is gone by the end of the block
HistoryRetention(s) ==
  \A hk \in DOMAIN s.hist : \E h \in 0..s.height : K(h) = hk /\ h > s.height - s.params.histEntries
(* inside a block the engine still holds exactly what the last EndBlock told it: the last powers, under the keys of records that are kept until the block ends *)
EngineMatchesLast(s) ==
  /\ \A o \in DOMAIN s.lastPow : Has(s.vals, o)
  /\ s.comet = [k \in {KeyOf(s, o) : o \in DOMAIN s.lastPow} |-> LET o == CHOOSE x \in DOMAIN s.lastPow : KeyOf(s, x) = k IN s.lastPow[o]]
Good(s) ==
  /\ ~s.halted /\ s.cometOK /\ IndexBijective(s) /\ Capacity(s)
  /\ (s.phase = "out" => AgreesOut(s))
  /\ (s.phase = "in" => EngineMatchesLast(s))
Deviates(o) == o.e.type = "EndBlock" /\ o.ok /\ o.resp.devs # {}
GoodPreserved(s, o, t) == ((s.phase = "pre" \/ Good(s)) /\ o.ok /\ ~Deviates(o)) => (t.phase = "pre" \/ Good(t))
BatchWellFormed(s, o, t) ==
  (o.ok /\ o.e.type \in {"EndBlock", "InitGenesis"} /\ ~Deviates(o) /\ (s.phase = "pre" \/ Good(s))) =>
     /\ t.cometOK
     /\ Cardinality({t.batch[i].key : i \in 1..Len(t.batch)}) = Len(t.batch)
     /\ \A i \in 1..Len(t.batch) : t.batch[i].power >= 0 /\ (t.batch[i].power = 0 => Has(s.comet, t.batch[i].key))
HistoryExact(s, o, t) ==
  (o.ok /\ o.e.type = "BeginBlock" /\ Good(s)) =>
     /\ HistoryRetention(t)
     /\ (t.params.histEntries > 0 =>
           (/\ Has(t.hist, K(t.height))
            /\ t.hist[K(t.height)] = [k \in {KeyOf(s, x) : x \in Bonded(s)} |-> LET x == CHOOSE y \in Bonded(s) : KeyOf(s, y) = k IN s.vals[x].power]))
PlanApplied(s, o, t) ==
  (o.ok /\ o.e.type = "EndBlock" /\ o.resp.planned /\ ~Deviates(o) /\ Good(s)) =>
     LET p == s.plans[K(s.height)] IN
       /\ t.comet = (p.key :> 1) /\ Bonded(t) = {p.op} /\ DOMAIN t.vals = {p.op} /\ t.params.execs = p.execs /\ Good(t)
OnlyAtHeight(s, o, t) ==
  (t.params.execs # s.params.execs) =>
     \/ o.e.type \in {"UpdateParams", "InitGenesis"}
     \/ (o.e.type = "EndBlock" /\ Has(s.plans, K(s.height)))
RegisterRejects(s, o, t) == (o.e.type = "RegisterPlan" /\ ~o.ok) => t = s
NoEffectOnReject(s, o, t) == ~o.ok => t = s

NextOutcome == [e |-> last'.e, ok |-> last'.ok, resp |-> last'.resp, failed |-> last'.failed]
P_ValSet == [][GoodPreserved(st, NextOutcome, st') /\ BatchWellFormed(st, NextOutcome, st') /\ HistoryExact(st, NextOutcome, st')]_vars
P_Plan   == [][PlanApplied(st, NextOutcome, st') /\ OnlyAtHeight(st, NextOutcome, st') /\ RegisterRejects(st, NextOutcome, st')]_vars
P_NoEffectOnReject == [][NoEffectOnReject(st, NextOutcome, st')]_vars
=============================================================================
