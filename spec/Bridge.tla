-------------------------------- MODULE Bridge --------------------------------
(***************************************************************************)
(* The two chains composed with the off-chain roles (C04, C08): users,      *)
(* a faithful executor that relays L1 deposit events to the L2, a proposer   *)
(* that commits to the L2 withdrawal log with the published tree rule, a     *)
(* challenger, and anybody submitting claims.                                *)
(*                                                                         *)
(* s.l1, s.l2   states of L1Host / L2Child                                   *)
(* s.deps       L1 deposit events in sequence order (what the executor saw)  *)
(* s.wds        L2 withdrawal events in sequence order (user withdrawals and *)
(*              refunds of failed deposits)                                  *)
(* s.trees      output index -> number of withdrawals its tree commits to    *)
(* An event is [chain |-> "L1"|"L2", e |-> event of that chain's module].     *)
(***************************************************************************)
EXTENDS Integers, Sequences, FiniteSets, TLC

L1 == INSTANCE L1Host
L2 == INSTANCE L2Child

B == 1                                  \* the bridge of this L2
K(n) == ToString(n)
Has(f, k) == k \in DOMAIN f
L2D(d) == L1!L2DenomOf(B, d)

(* the L1-side tuple of the i-th L2 withdrawal and the tree over the first n of them *)
WdTuple(w) == [seq |-> w.seq, from |-> w.from, to |-> w.to, denom |-> w.base, amt |-> w.amt]
Leaf(w) == [b |-> B, seq |-> w.seq, from |-> w.from, to |-> w.to, denom |-> w.base, amt |-> w.amt]
TreeOf(s, n) == [id |-> "W" \o K(n), leaves |-> [i \in 1..n |-> Leaf(s.wds[i])]]
RootOf(n) == [v |-> 0, t |-> "W" \o K(n), h |-> "h1"]

(* ---- events of the roles, built from what each role can observe ---- *)
UserDepositD(u, to, d, n, data) == [chain |-> "L1", e |-> [type |-> "InitiateTokenDeposit", signer |-> u, b |-> B, to |-> to, denom |-> d, amt |-> n, data |-> data]]
UserDeposit(u, to, d, n) == UserDepositD(u, to, d, n, "p0")
(* the hook a deposit's data stands for: "p0" none; "hw" the recipient sends the whole deposit straight back to the L1 sender; *)
(* "hwf" the same followed by a message that fails (so the hook is dropped as a whole and the deposit is refunded).          *)
(* The L1 treats the payload as opaque bytes; the harness builds the signed L2 transaction when the deposit is relayed.      *)
HookUsers == {"u1", "u2", "u3"}
HookOf(d) ==
  IF d.data = "p0" \/ d.to \notin HookUsers THEN [kind |-> "none", signer |-> "", msgs |-> << >>]
  ELSE IF d.data = "hu" THEN [kind |-> "undecodable", signer |-> "", msgs |-> << >>]      \* a memo: bytes that are no transaction - the deposit is refunded, never a relay error
  ELSE [kind |-> "msgs", signer |-> d.to,
        msgs |-> << [kind |-> "withdraw", to |-> d.from, denom |-> d.l2denom, amt |-> d.amt] >>
                 \o (IF d.data = "hwf" THEN << [kind |-> "send", to |-> "panic", denom |-> d.l2denom, amt |-> 1] >> ELSE << >>)]
Relay(s, exec, q) ==     \* the executor re-sends deposit q exactly as the L1 announced it
  LET d == s.deps[q] IN
  [chain |-> "L2", e |-> [type |-> "FinalizeTokenDeposit", signer |-> exec, seq |-> d.seq, from |-> d.from, to |-> d.to, denom |-> d.l2denom, amt |-> d.amt,
                          base |-> d.l1denom, height |-> 5, hook |-> HookOf(d), fault |-> "none"]]
UserWithdraw(u, to, d, n) == [chain |-> "L2", e |-> [type |-> "InitiateTokenWithdrawal", signer |-> u, to |-> to, denom |-> L2D(d), amt |-> n]]
L2Transfer(a, b, d, n) == [chain |-> "L2", e |-> [type |-> "BankSend", signer |-> a, to |-> b, denom |-> L2D(d), amt |-> n]]
Propose(s, who) ==
  LET n == Len(s.wds) idx == s.l1.nextOut[K(B)] IN
  [chain |-> "L1", e |-> [type |-> "ProposeOutput", signer |-> who, b |-> B, idx |-> idx, l2bn |-> idx, root |-> RootOf(n), tree |-> TreeOf(s, n), bad |-> "none"]]
Challenge(who, idx) == [chain |-> "L1", e |-> [type |-> "DeleteOutput", signer |-> who, b |-> B, idx |-> idx]]
Advance(dt) == [chain |-> "L1", e |-> [type |-> "AdvanceBlock", dt |-> dt]]
Claim(s, who, i, out) ==
  LET n == s.trees[K(out)] IN
  [chain |-> "L1", e |-> [type |-> "FinalizeTokenWithdrawal", signer |-> who, b |-> B, out |-> out, w |-> WdTuple(s.wds[i]), v |-> 0, tree |-> TreeOf(s, n), pos |-> i,
                          h |-> "h1", mut |-> "none", bad |-> "none", root |-> RootOf(n), proofOK |-> i <= n]]

(* ---- transition ---- *)
WdRec(w) == [seq |-> w.seq, from |-> w.from, to |-> w.to, denom |-> w.denom, base |-> w.base, amt |-> w.amt]
Step(s, ev) ==
  IF ev.chain = "L1"
  THEN LET r == L1!Step(s.l1, ev.e) e == ev.e IN
       [ ok |-> r.ok, resp |-> r.resp, failed |-> r.failed,
         st |-> IF ~r.ok THEN s
                ELSE [s EXCEPT !.l1 = r.st,
                               !.deps = IF e.type = "InitiateTokenDeposit" /\ e.b = B
                                        THEN Append(@, [seq |-> r.resp.ev.seq, from |-> r.resp.ev.from, to |-> r.resp.ev.to, l1denom |-> r.resp.ev.l1denom,
                                                        l2denom |-> r.resp.ev.l2denom, amt |-> r.resp.ev.amt, data |-> r.resp.ev.data]) ELSE @,
                               !.trees = IF e.type = "ProposeOutput" /\ e.b = B THEN [x \in (DOMAIN @) \cup {K(e.idx)} |-> IF x = K(e.idx) THEN Len(s.wds) ELSE @[x]]
                                         ELSE IF e.type = "DeleteOutput" /\ e.b = B THEN [x \in {y \in DOMAIN @ : \E j \in 1..(e.idx - 1) : K(j) = y} |-> @[x]]
                                         ELSE @] ]
  ELSE LET r == L2!Step(s.l2, ev.e) e == ev.e IN
       [ ok |-> r.ok, resp |-> r.resp, failed |-> r.failed,
         st |-> IF ~r.ok THEN s
                ELSE [s EXCEPT !.l2 = r.st,
                               !.wds = IF e.type = "InitiateTokenWithdrawal" THEN Append(@, WdRec(r.resp.ev))
                                       ELSE IF e.type = "FinalizeTokenDeposit" /\ r.resp.result = "SUCCESS"
                                       THEN @ \o [i \in 1..Len(r.resp.hookWds) |-> WdRec(r.resp.hookWds[i])] \o (IF r.resp.wd.some THEN << WdRec(r.resp.wd) >> ELSE << >>)
                                       ELSE @] ]

(* ---- properties ---- *)
RECURSIVE SumIdx(_, _)
SumIdx(f, S) == IF S = {} THEN 0 ELSE LET i == CHOOSE x \in S : TRUE IN f[i] + SumIdx(f, S \ {i})
Claimed(s, w) == Has(s.l1.claimed[K(B)], L1!LeafId(B, WdTuple(w)))
InFlight(s, d) == SumIdx([i \in 1..Len(s.deps) |-> s.deps[i].amt], {i \in 1..Len(s.deps) : s.deps[i].l1denom = d /\ s.deps[i].seq >= s.l2.seqL1})
Unpaid(s, d)   == SumIdx([i \in 1..Len(s.wds) |-> s.wds[i].amt], {i \in 1..Len(s.wds) : s.wds[i].base = d /\ ~Claimed(s, s.wds[i])})
Escrow(s, d)   == s.l1.bal[L1!Esc(B)][d]
Supply2(s, d)  == IF Has(s.l2.supply, L2D(d)) THEN s.l2.supply[L2D(d)] ELSE 0
(* C08: at every moment the escrow backs L2 supply plus value in flight in either direction *)
Solvency(s, denoms) == \A d \in denoms : Escrow(s, d) = Supply2(s, d) + InFlight(s, d) + Unpaid(s, d)
(* C04: a recorded withdrawal with a valid recipient that an output covers can be claimed once the output is final *)
Claimable(s, i, out) ==
  /\ Has(s.trees, K(out)) /\ i <= s.trees[K(out)] /\ Has(s.l1.outs[K(B)], K(out))
  /\ L1!IsFinalAt(s.l1, B, s.l1.outs[K(B)][K(out)]) /\ ~Claimed(s, s.wds[i])
  /\ L1!ValidAddr(s.wds[i].to) /\ s.wds[i].amt > 0
Completeness(s) ==
  \A i \in 1..Len(s.wds) : \A out \in 1..(s.l1.nextOut[K(B)] - 1) :
     Claimable(s, i, out) => Step(s, Claim(s, "x", i, out)).ok
NoStuckTransfer(s) == (\A i \in 1..Len(s.wds) : s.wds[i].amt <= s.l1.cap) /\ (\A q \in 1..Len(s.deps) : s.deps[q].amt <= s.l1.cap)
(* drained: nothing in flight, and every recorded withdrawal that C04 calls claimable (positive amount, valid L1 recipient) has been paid *)
Drained(s) == s.l2.seqL1 > Len(s.deps) /\ \A i \in 1..Len(s.wds) : Claimed(s, s.wds[i]) \/ ~L1!ValidAddr(s.wds[i].to) \/ s.wds[i].amt = 0
(* C08 as an action property: value moves only along the bridge's edges.  Per denom, with                              *)
(*   L1u = users' L1 balances, Fly = deposits in flight, Sup = L2 supply, Unp = recorded unpaid withdrawals:            *)
(*   Fly grows only by an accepted L1 deposit (by exactly its amount, out of the depositor's L1 balance);               *)
(*   Fly shrinks only by a processed relay on the L2, into Sup (credited, minus what its hook withdraws) and Unp        *)
(*   (refund or hook withdrawals);  Sup shrinks only by a withdrawal on the L2, into Unp;                               *)
(*   Unp shrinks only by an accepted claim on the L1, into the recipient's L1 balance.                                  *)
L1u(s, d, users) == SumIdx([a \in users |-> s.l1.bal[a][d]], users)
FlowOver(s, o, t, users, denoms) ==
  \A d \in denoms :
    LET dFly == InFlight(t, d) - InFlight(s, d)
        dSup == Supply2(t, d) - Supply2(s, d)
        dUnp == Unpaid(t, d) - Unpaid(s, d)
        dL1  == L1u(t, d, users) - L1u(s, d, users)
        ev == o.e.e
        isDep   == o.ok /\ o.e.chain = "L1" /\ ev.type = "InitiateTokenDeposit" /\ ev.b = B /\ ev.denom = d
        isRelay == o.ok /\ o.e.chain = "L2" /\ ev.type = "FinalizeTokenDeposit" /\ o.resp.result = "SUCCESS"
        isWd    == o.ok /\ o.e.chain = "L2" /\ ev.type = "InitiateTokenWithdrawal"
        isClaim == o.ok /\ o.e.chain = "L1" /\ ev.type = "FinalizeTokenWithdrawal" /\ ev.b = B /\ ev.w.denom = d
    IN /\ dFly > 0 => (isDep /\ dFly = ev.amt /\ dL1 = -ev.amt /\ dSup = 0 /\ dUnp = 0)
       /\ dFly < 0 => (isRelay /\ dL1 = 0 /\ dSup + dUnp = -dFly /\ dSup >= 0 /\ dUnp >= 0)
       /\ dSup < 0 => (isWd /\ dUnp = -dSup /\ dFly = 0 /\ dL1 = 0)
       /\ dUnp < 0 => (isClaim /\ dL1 + dUnp = 0 /\ dFly = 0 /\ dSup = 0)
       /\ (dSup > 0 /\ dFly = 0) => FALSE                       \* L2 supply never grows without a deposit leaving flight
=============================================================================
