------------------------------- MODULE Trace_L1 -------------------------------
(***************************************************************************)
(* Engine E3 for the L1 module: validates a history RECORDED from the real  *)
(* ophost keeper against L1Host!Step.  Every line carries the event, the     *)
(* implementation's result / response and the full projected post-state, so  *)
(* each line is a one-step refinement check from the OBSERVED pre-state      *)
(* (the check resynchronises on the implementation: a divergence cannot      *)
(* cascade, and the whole trace is always examined).  Divergences and        *)
(* invariant failures on observed states are printed, not raised.            *)
(***************************************************************************)
EXTENDS L1Host, Json

CONSTANT TraceFile
Trace == ndJsonDeserialize(TraceFile)

IsReset(x) == "reset" \in DOMAIN x
DiffFields(a, b) == {f \in (DOMAIN a) \cup (DOMAIN b) : ~(f \in DOMAIN a /\ f \in DOMAIN b /\ a[f] = b[f])}

(* the state invariants of C05 / C10 / C11 evaluated on observed states *)
KOf(k) == CHOOSE n \in 0..64 : K(n) = k
ObsContiguous(s) == \A k \in DOMAIN s.outs : DOMAIN s.outs[k] = {K(i) : i \in 1..(s.nextOut[k] - 1)}
ObsL2Increasing(s) ==
  \A k \in DOMAIN s.outs : \A i \in 1..(s.nextOut[k] - 2) :
     (Has(s.outs[k], K(i)) /\ Has(s.outs[k], K(i + 1))) => (s.outs[k][K(i)].l2bn < s.outs[k][K(i + 1)].l2bn /\ s.outs[k][K(i)].t <= s.outs[k][K(i + 1)].t)
ObsFinal(s, k, i) == Has(s.cfg, k) /\ Has(s.outs[k], K(i)) /\ IsFinalAt(s, KOf(k), s.outs[k][K(i)])
ObsFinalPrefix(s) == \A k \in DOMAIN s.cfg : \A j \in 1..(s.nextOut[k] - 1) : \A i \in 1..(j - 1) : ObsFinal(s, k, j) => ObsFinal(s, k, i)
ObsLastFinal(s) == \A k \in DOMAIN s.cfg : s.lastFinal[k] = Max({0} \cup {i \in 1..(s.nextOut[k] - 1) : ObsFinal(s, k, i)})
ObsPositivePeriod(s) == \A k \in DOMAIN s.cfg : s.cfg[k].period > 0
ObsNoStray(s) == s.stray = EmptyMap
FailedInvs(s) ==
  (IF ObsContiguous(s) THEN {} ELSE {"Contiguous"}) \cup (IF ObsL2Increasing(s) THEN {} ELSE {"L2Increasing"})
  \cup (IF ObsContiguous(s) /\ ~ObsFinalPrefix(s) THEN {"FinalPrefix"} ELSE {}) \cup (IF ObsContiguous(s) /\ ~ObsLastFinal(s) THEN {"LastFinalQuery"} ELSE {})
  \cup (IF ObsPositivePeriod(s) THEN {} ELSE {"PositivePeriod"}) \cup (IF ObsNoStray(s) THEN {} ELSE {"NoStray"})

CheckLine(i) ==
  LET cur == Trace[i] IN
  IF IsReset(cur) THEN TRUE
  ELSE LET pre == Trace[i - 1].state
           r == Step(pre, cur.e)
           sameResult == r.ok = cur.ok
           d == IF r.ok /\ cur.ok THEN DiffFields(r.st, cur.state) ELSE {}
           rd == IF r.ok /\ cur.ok /\ r.resp # cur.resp THEN TRUE ELSE FALSE
           bad == FailedInvs(cur.state)
       IN /\ (sameResult \/ PrintT("DIV " \o ToJson([line |-> i, kind |-> "result", spec_ok |-> r.ok, failed |-> r.failed])))
          /\ (d = {} \/ PrintT("DIV " \o ToJson([line |-> i, kind |-> "state", fields |-> d, spec |-> [f \in d \cap DOMAIN r.st |-> r.st[f]]])))
          /\ (~rd \/ PrintT("DIV " \o ToJson([line |-> i, kind |-> "resp", spec |-> r.resp])))
          /\ (bad = {} \/ PrintT("INV " \o ToJson([line |-> i, failed |-> bad])))

ASSUME \A i \in 1..Len(Trace) : CheckLine(i)
ASSUME PrintT("TRACE " \o ToJson([lines |-> Len(Trace)]))

VARIABLE dummy
Init == dummy = 0
Next == UNCHANGED dummy
Spec == Init /\ [][Next]_dummy
=============================================================================
