------------------------------- MODULE Trace_L2 -------------------------------
(* Engine E3 for the L2 bridge module: validates a history recorded from the real opchild keeper against   *)
(* L2Child!Step (see Trace_L1 for the scheme).                                                              *)
EXTENDS L2Child, Json

CONSTANT TraceFile
Trace == ndJsonDeserialize(TraceFile)

IsReset(x) == "reset" \in DOMAIN x
DiffFields(a, b) == {f \in (DOMAIN a) \cup (DOMAIN b) : ~(f \in DOMAIN a /\ f \in DOMAIN b /\ a[f] = b[f])}

RECURSIVE SumBalOver(_, _, _)
SumBalOver(s, d, T) == IF T = {} THEN 0 ELSE LET x == CHOOSE y \in T : TRUE IN s.bal[x][d] + SumBalOver(s, d, T \ {x})
ObsSupply(s) == \A d \in DOMAIN s.supply : s.supply[d] = SumBalOver(s, d, DOMAIN s.bal)
ObsNoStray(s) == s.stray = EmptyMap
FailedInvs(s) == (IF ObsSupply(s) THEN {} ELSE {"SupplyMatchesBalances"}) \cup (IF ObsNoStray(s) THEN {} ELSE {"NoStray"})
(* transition facts on OBSERVED pre/post states *)
FailedSteps(pre, cur) ==
  (LET deps == IF cur.ok /\ cur.e.type = "FinalizeTokenDeposit" /\ cur.resp.result = "SUCCESS" THEN cur.resp.depEvs ELSE << >>
   IN IF cur.state.seqL1 = pre.seqL1 + Len(deps) /\ (\A q \in pre.seqL1..(cur.state.seqL1 - 1) : Cardinality({j \in 1..Len(deps) : deps[j].seq = q}) = 1) THEN {} ELSE {"SeqL1Step"})
  \cup (LET ann == IF cur.ok /\ cur.e.type = "InitiateTokenWithdrawal" THEN << cur.resp.ev >>
                    ELSE IF cur.ok /\ cur.e.type = "FinalizeTokenDeposit" /\ cur.resp.result = "SUCCESS"
                         THEN cur.resp.hookWds \o (IF cur.resp.wd.some THEN << cur.resp.wd >> ELSE << >>)
                    ELSE << >>
        IN IF cur.state.seqL2 = pre.seqL2 + Len(ann) /\ (\A j \in 1..Len(ann) : ann[j].seq = pre.seqL2 + j - 1) THEN {} ELSE {"SeqL2Step"})   \* gap-free: one sequence per announced withdrawal
  \cup (IF \A d \in DOMAIN pre.pairs : Has(cur.state.pairs, d) /\ cur.state.pairs[d] = pre.pairs[d] THEN {} ELSE {"PairImmutable"})
  \cup (IF ~cur.ok /\ cur.state # pre THEN {"NoEffectOnReject"} ELSE {})

CheckLine(i) ==
  LET cur == Trace[i] IN
  IF IsReset(cur) THEN TRUE
  ELSE LET pre == Trace[i - 1].state
           r == Step(pre, cur.e)
           d == IF r.ok /\ cur.ok THEN DiffFields(r.st, cur.state) ELSE {}
           rd == r.ok /\ cur.ok /\ r.resp # cur.resp
           bad == FailedInvs(cur.state) \cup FailedSteps(pre, cur)
       IN /\ (r.ok = cur.ok \/ PrintT("DIV " \o ToJson([line |-> i, kind |-> "result", spec_ok |-> r.ok, failed |-> r.failed])))
          /\ (d = {} \/ PrintT("DIV " \o ToJson([line |-> i, kind |-> "state", fields |-> d, spec |-> [f \in d \cap DOMAIN r.st |-> r.st[f]]])))
          /\ (~rd \/ PrintT("DIV " \o ToJson([line |-> i, kind |-> "resp", spec |-> r.resp])))
          /\ (bad = {} \/ PrintT("INV " \o ToJson([line |-> i, failed |-> bad])))

ASSUME \A i \in 1..Len(Trace) : CheckLine(i)
ASSUME PrintT("TRACE " \o ToJson([lines |-> Len(Trace)]))

VARIABLE dummy
Init == dummy = 0
Next == UNCHANGED dummy
Spec == Init /\ [][Next]_dummy
=============================================================================
