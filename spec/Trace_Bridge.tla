------------------------------ MODULE Trace_Bridge ------------------------------
(* Engine E3 for the composed system: validates a history recorded from the two real chains (users, faithful   *)
(* executor, proposer building trees over the real L2 withdrawal events, challenger, claimants) against        *)
(* Bridge!Step and evaluates C08's Solvency / Holdings and C04's NoStuckTransfer on every observed state,      *)
(* and Completeness (every claimable withdrawal is accepted) on the states in which time has just advanced.   *)
EXTENDS Bridge, Json

CONSTANT TraceFile
Trace == ndJsonDeserialize(TraceFile)

IsReset(x) == "reset" \in DOMAIN x
DiffFields(a, b) == {f \in (DOMAIN a) \cup (DOMAIN b) : ~(f \in DOMAIN a /\ f \in DOMAIN b /\ a[f] = b[f])}

Denoms(s) == DOMAIN s.l1.bal[L1!Esc(B)]
Users(s) == {a \in DOMAIN s.l1.bal : a \in DOMAIN s.l2.bal} \ {"x", "gov"}
Held(s, d) == SumIdx([a \in Users(s) |-> s.l1.bal[a][d] + (IF Has(s.l2.bal[a], L2D(d)) THEN s.l2.bal[a][L2D(d)] ELSE 0)], Users(s))
(* value the users moved into OTHER bridges of the same L1 (their L2s are not part of the run) stays locked in those escrows *)
Elsewhere(s, d) == SumIdx([a \in {x \in DOMAIN s.l1.bal : x \in {"esc2", "esc3"}} |-> s.l1.bal[a][d]], {x \in DOMAIN s.l1.bal : x \in {"esc2", "esc3"}})
Value(s, d) == Held(s, d) + InFlight(s, d) + Unpaid(s, d) + Elsewhere(s, d)
RunStart[i \in 1..Len(Trace)] == IF IsReset(Trace[i]) THEN i ELSE 0
StartOf(i) == CHOOSE j \in 1..i : IsReset(Trace[j]) /\ \A k \in (j + 1)..i : ~IsReset(Trace[k])

FailedInvs(i, s) ==
  (IF Solvency(s, Denoms(s)) THEN {} ELSE {"Solvency"})
  \cup (IF NoStuckTransfer(s) THEN {} ELSE {"NoStuckTransfer"})
  \cup (IF \A d \in Denoms(s) : Value(s, d) = Value(Trace[StartOf(i)].state, d) THEN {} ELSE {"Holdings"})
  \cup (IF Trace[i].e.e.type = "AdvanceBlock" /\ ~Completeness(s) THEN {"Completeness"} ELSE {})
  \cup (IF FlowOver(Trace[i - 1].state, [e |-> Trace[i].e, ok |-> Trace[i].ok, resp |-> Trace[i].resp], s, Users(s), Denoms(s)) THEN {} ELSE {"Flow"})   \* on the OBSERVED pre/post states
  \cup (IF "expectDrained" \in DOMAIN Trace[i].e.e /\ ~Drained(s) THEN {"DrainedAfterCanonicalSchedule"} ELSE {})

CheckLine(i) ==
  LET cur == Trace[i] IN
  IF IsReset(cur) THEN TRUE
  ELSE LET pre == Trace[i - 1].state
           r == Step(pre, cur.e)
           d == IF r.ok /\ cur.ok THEN DiffFields(r.st, cur.state) ELSE {}
           dl == IF "l1" \in d THEN DiffFields(r.st.l1, cur.state.l1) ELSE {}
           dr == IF "l2" \in d THEN DiffFields(r.st.l2, cur.state.l2) ELSE {}
           rd == r.ok /\ cur.ok /\ r.resp # cur.resp
           bad == FailedInvs(i, cur.state)
       IN /\ (r.ok = cur.ok \/ PrintT("DIV " \o ToJson([line |-> i, kind |-> "result", spec_ok |-> r.ok, failed |-> r.failed])))
          /\ (d = {} \/ PrintT("DIV " \o ToJson([line |-> i, kind |-> "state", fields |-> (d \ {"l1", "l2"}) \cup {"l1." \o f : f \in dl} \cup {"l2." \o f : f \in dr},
                                                  spec |-> [f \in (d \ {"l1", "l2"}) |-> r.st[f]]])))
          /\ (~rd \/ PrintT("DIV " \o ToJson([line |-> i, kind |-> "resp", spec |-> r.resp])))
          /\ (bad = {} \/ PrintT("INV " \o ToJson([line |-> i, failed |-> bad])))

ASSUME \A i \in 1..Len(Trace) : CheckLine(i)
ASSUME PrintT("TRACE " \o ToJson([lines |-> Len(Trace)]))

VARIABLE dummy
Init == dummy = 0
Next == UNCHANGED dummy
Spec == Init /\ [][Next]_dummy
=============================================================================
