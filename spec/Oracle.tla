-------------------------------- MODULE Oracle --------------------------------
(***************************************************************************)
(* Relay of L1 oracle prices to the L2 (x/opchild/keeper/oracle.go,          *)
(* l2connect/utils.go, l2connect/aggregator.go, host_validator_store.go,     *)
(* keeper.go:UpdateHostValidatorSet, msg_server.go:UpdateOracle) together    *)
(* with the connect vote aggregator and stake-weighted median it calls.      *)
(*                                                                         *)
(* s.hostH          height of the recorded L1 validator set (0 = none)       *)
(* s.hostVals[v]    voting power of L1 validator v in that set               *)
(* s.client, s.chain  L1 light client id / L1 chain id of the bridge info    *)
(* s.enabled        the bridge has the oracle enabled                        *)
(* s.execs          bridge executors                                         *)
(* s.price[cp]      [p, ts] current price and timestamp of a currency pair   *)
(*                  (ts = 0: never set)                                      *)
(* A vote is [val, flag, sig, ext] with                                       *)
(*   flag in {"commit","absent","nil"}                                        *)
(*   sig  in {"ok","bad","missing","wrongChain","wrongHeight","wrongRound","swapped"} *)
(*   ext  = [kind |-> "none"] | [kind |-> "garbage"] |                        *)
(*          [kind |-> "prices", ts |-> t, p |-> [cp -> price]]  (0 = no price) *)
(***************************************************************************)
EXTENDS Integers, Sequences, FiniteSets, TLC

Has(f, k)    == k \in DOMAIN f
AllTrue(g)   == \A n \in DOMAIN g : g[n]
FalseOnes(g) == {n \in DOMAIN g : ~g[n]}
BadAddrs     == {"bad:empty", "bad:notbech32", "bad:space"}      \* "bad:space": a string of blanks - not empty, not an address
ValidAddr(a) == a \notin BadAddrs
IsExecutor(s, a) == \E i \in 1..Len(s.execs) : s.execs[i] = a

RECURSIVE SumOver(_, _)
SumOver(f, S) == IF S = {} THEN 0 ELSE LET x == CHOOSE y \in S : TRUE IN f[x] + SumOver(f, S \ {x})
Total(s) == SumOver(s.hostVals, DOMAIN s.hostVals)

Known(s, v) == Has(s.hostVals, v)
ExtPresent(x) == x.kind # "none"
SigPresent(v) == v.sig # "missing"

(* ValidateVoteExtensions: votes are examined in order; the first offending vote aborts the update *)
RECURSIVE Validate(_, _, _, _)
Validate(s, votes, i, sum) ==
  IF i > Len(votes) THEN [err |-> FALSE, sum |-> sum]
  ELSE LET v == votes[i] IN
    IF ~Known(s, v.val) THEN Validate(s, votes, i + 1, sum)
    ELSE IF v.flag = "commit" /\ ~SigPresent(v) THEN [err |-> TRUE, sum |-> sum]
    ELSE IF v.flag # "commit" /\ (ExtPresent(v.ext) \/ SigPresent(v)) THEN [err |-> TRUE, sum |-> sum]
    ELSE IF v.flag # "commit" THEN Validate(s, votes, i + 1, sum)
    ELSE IF v.sig # "ok" THEN [err |-> TRUE, sum |-> sum]
    ELSE Validate(s, votes, i + 1, sum + s.hostVals[v.val])
QuorumOK(s, votes) ==
  LET r == Validate(s, votes, 1, 0) IN ~r.err /\ Total(s) > 0 /\ r.sum >= ((Total(s) * 2) \div 3) + 1

(* every extension must decode (also those of unknown validators and non-commit votes) *)
AllDecode(votes) == \A i \in 1..Len(votes) : votes[i].ext.kind # "garbage"

(* the aggregator keeps, per validator, the prices of its LAST vote that carries any price *)
HasPrices(x) == x.kind = "prices" /\ (x.ts > 0 \/ \E cp \in DOMAIN x.p : x.p[cp] > 0)
LastVote(votes, val) ==
  LET idx == {i \in 1..Len(votes) : votes[i].val = val /\ HasPrices(votes[i].ext)} IN
  IF idx = {} THEN [kind |-> "none"] ELSE votes[CHOOSE i \in idx : \A j \in idx : j <= i].ext
Voters(s, votes) == {votes[i].val : i \in 1..Len(votes)} \cap DOMAIN s.hostVals
(* value a validator reports for pair cp ("TS" is the reserved timestamp pair); 0 = none *)
Report(x, cp) == IF x.kind # "prices" THEN 0 ELSE IF cp = "TS" THEN x.ts ELSE IF Has(x.p, cp) THEN x.p[cp] ELSE 0
Providers(s, votes, cp) == {v \in Voters(s, votes) : Report(LastVote(votes, v), cp) > 0}
Weight(s, votes, cp) == SumOver(s.hostVals, Providers(s, votes, cp))
(* connect's DefaultPowerThreshold is the decimal 0.667, not 2/3 *)
Enough(s, votes, cp) == Providers(s, votes, cp) # {} /\ 1000 * Weight(s, votes, cp) >= 667 * Total(s)

(* stake-weighted median: reports sorted ascending, first one at which the cumulative weight reaches half of the reporting   *)
(* weight (weights are bonded tokens = power * 10^6, so the halving is exact at the granularity of powers)                   *)
Median(s, votes, cp) ==
  LET P == Providers(s, votes, cp)
      val(v) == Report(LastVote(votes, v), cp)
      below(x) == SumOver(s.hostVals, {v \in P : val(v) <= x})
      w == Weight(s, votes, cp)
      cands == {val(v) : v \in P}
  IN CHOOSE x \in cands : 2 * below(x) >= w /\ \A y \in cands : (y < x => 2 * below(y) < w)

Pairs(s) == DOMAIN s.price
Aggregated(s, votes) == {cp \in Pairs(s) : Enough(s, votes, cp)}

UpdateOracle_G(s, e) ==
  [ valid        |-> ValidAddr(e.signer) /\ e.height # 0,
    executor     |-> IsExecutor(s, e.signer),
    enabled      |-> s.enabled,
    hostSetKnown |-> s.hostH > 0,
    heightNotOlder |-> s.hostH <= e.height,
    quorum       |-> s.hostH > 0 => QuorumOK(s, e.votes),
    decodes      |-> AllDecode(e.votes),
    hasTimestamp |-> (s.hostH > 0 /\ AllDecode(e.votes)) => Enough(s, e.votes, "TS"),
    tsIncreases  |-> (s.hostH > 0 /\ AllDecode(e.votes) /\ Enough(s, e.votes, "TS")) =>
                       \A cp \in Aggregated(s, e.votes) : Median(s, e.votes, "TS") > s.price[cp].ts ]
UpdateOracle_E(s, e) ==
  LET ts == Median(s, e.votes, "TS") IN
  [s EXCEPT !.price = [cp \in Pairs(s) |-> IF cp \in Aggregated(s, e.votes) THEN [p |-> Median(s, e.votes, cp), ts |-> ts] ELSE s.price[cp]]]
UpdateOracle_R(s, e) == [height |-> e.height]

(* UpdateHostValidatorSet (called by the IBC client update hook): only the configured client, only forward *)
UpdateHostSet_G(s, e) == [ valid |-> TRUE ]
UpdateHostSet_E(s, e) ==
  IF e.client = "" \/ e.client # s.client \/ e.height <= s.hostH THEN s
  ELSE [s EXCEPT !.hostH = e.height, !.hostVals = e.set]
UpdateHostSet_R(s, e) == [applied |-> ~(e.client = "" \/ e.client # s.client \/ e.height <= s.hostH)]

(* SetBridgeInfo as far as the oracle is concerned: an executor re-sends the bridge info with an L1 client id; once a  *)
(* client id is bound it can be neither changed nor cleared (msg_server.go:SetBridgeInfo).  e.oracle is the oracle flag  *)
(* of the bridge config the message carries (the L1 proposer may switch it at any time with UpdateOracleConfig).        *)
SetClient_G(s, e) ==
  [ valid       |-> ValidAddr(e.signer),
    executor    |-> IsExecutor(s, e.signer),
    bindingSame |-> s.client = "" \/ e.client = s.client ]
SetClient_E(s, e) == [s EXCEPT !.client = e.client, !.enabled = e.oracle]     \* the relayed bridge config carries the L1 oracle flag: it follows the last accepted message
SetClient_R(s, e) == [client |-> e.client]

Guards(s, e) == CASE e.type = "UpdateOracle" -> UpdateOracle_G(s, e) [] e.type = "UpdateHostSet" -> UpdateHostSet_G(s, e) [] e.type = "SetClient" -> SetClient_G(s, e)
Effect(s, e) == CASE e.type = "UpdateOracle" -> UpdateOracle_E(s, e) [] e.type = "UpdateHostSet" -> UpdateHostSet_E(s, e) [] e.type = "SetClient" -> SetClient_E(s, e)
Resp(s, e)   == CASE e.type = "UpdateOracle" -> UpdateOracle_R(s, e) [] e.type = "UpdateHostSet" -> UpdateHostSet_R(s, e) [] e.type = "SetClient" -> SetClient_R(s, e)
NoResp == [none |-> TRUE]
Step(s, e) ==
  LET g == Guards(s, e) ok == AllTrue(g) IN
  [ ok |-> ok, st |-> IF ok THEN Effect(s, e) ELSE s, resp |-> IF ok THEN Resp(s, e) ELSE NoResp, failed |-> FalseOnes(g) ]

InitState(execs, client, chain, enabled, pairs) ==
  [ hostH |-> 0, hostVals |-> [x \in {} |-> 0], client |-> client, chain |-> chain, enabled |-> enabled, execs |-> execs,
    price |-> [cp \in pairs |-> [p |-> 0, ts |-> 0]] ]
----------------------------------------------------------------------------
(* C15, stated independently of the handler's own arithmetic *)
ValidSigners(s, votes, cp) ==
  {v \in DOMAIN s.hostVals : \E i \in 1..Len(votes) : votes[i].val = v /\ votes[i].flag = "commit" /\ votes[i].sig = "ok" /\ Report(votes[i].ext, cp) > 0}
QuorumSound(s, o, t) ==
  \A cp \in DOMAIN s.price :
     t.price[cp] # s.price[cp] =>
        /\ o.e.type = "UpdateOracle" /\ o.ok /\ IsExecutor(s, o.e.signer) /\ s.enabled
        /\ 3 * SumOver(s.hostVals, ValidSigners(s, o.e.votes, cp)) >= 2 * Total(s)
        /\ 3 * SumOver(s.hostVals, ValidSigners(s, o.e.votes, "TS")) >= 2 * Total(s)
        /\ t.price[cp].ts > s.price[cp].ts                                           \* no replay / rollback
        /\ \E i \in 1..Len(o.e.votes) : Report(o.e.votes[i].ext, cp) = t.price[cp].p   \* the accepted value was reported by someone
HeightNotOlder(s, o, t) == (o.e.type = "UpdateOracle" /\ o.ok) => (s.hostH > 0 /\ o.e.height >= s.hostH)
HostSetOnlyForward(s, o, t) ==
  (t.hostVals # s.hostVals \/ t.hostH # s.hostH) => (o.e.type = "UpdateHostSet" /\ t.hostH > s.hostH /\ o.e.client = s.client /\ t.hostVals = o.e.set)
NoEffectOnReject(s, o, t) == ~o.ok => t = s
ClientBound(s, o, t) == s.client # "" => t.client = s.client      \* the L1 light client the recorded set comes from never changes

=============================================================================
