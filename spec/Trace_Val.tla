------------------------------- MODULE Trace_Val -------------------------------
(* Engine E3 for the L2 validator set: validates a history recorded from the real keeper (BeginBlocker /   *)
(* EndBlocker, validator messages, plans, genesis round trips; every returned batch applied to a real       *)
(* CometBFT validator set) against ValSet!Step, and evaluates C13's Good on observed states.               *)
EXTENDS ValSet, Json

CONSTANT TraceFile
Trace == ndJsonDeserialize(TraceFile)

IsReset(x) == "reset" \in DOMAIN x
DiffFields(a, b) == {f \in (DOMAIN a) \cup (DOMAIN b) : ~(f \in DOMAIN a /\ f \in DOMAIN b /\ a[f] = b[f])}

KeyOf(s, o) == s.vals[o].key
IndexBijective(s) ==
  /\ \A o \in DOMAIN s.vals : Has(s.cons, KeyOf(s, o)) /\ s.cons[KeyOf(s, o)] = o
  /\ \A k \in DOMAIN s.cons : Has(s.vals, s.cons[k]) /\ KeyOf(s, s.cons[k]) = k
AgreesOut(s) ==
  /\ s.comet = [k \in {KeyOf(s, o) : o \in Bonded(s)} |-> LET o == CHOOSE x \in Bonded(s) : KeyOf(s, x) = k IN s.vals[o].power]
  /\ s.lastPow = [o \in Bonded(s) |-> s.vals[o].power]
  /\ \A o \in DOMAIN s.vals : s.vals[o].power > 0
FailedInvs(s) ==
  (IF s.halted THEN {"Halted"} ELSE {}) \cup (IF s.cometOK THEN {} ELSE {"BatchRejectedByEngine"})
  \cup (IF IndexBijective(s) THEN {} ELSE {"IndexBijective"})
  \cup (IF Cardinality(DOMAIN s.vals) <= s.params.maxVals THEN {} ELSE {"Capacity"})
  \cup (IF s.phase = "out" /\ ~s.halted /\ ~AgreesOut(s) THEN {"EngineAgrees"} ELSE {})

(* a run is tainted once a plan was applied in one of the recorded deviation situations (known findings) *)
Deviated(x) == ~IsReset(x) /\ x.e.type = "EndBlock" /\ x.ok /\ x.resp.devs # << >>
DevLines == {j \in 1..Len(Trace) : Deviated(Trace[j])}
Tainted(i) == \E j \in DevLines : j <= i /\ Trace[j].run = Trace[i].run

CheckLine(i) ==
  LET cur == Trace[i] IN
  IF IsReset(cur) THEN TRUE
  ELSE LET pre == Trace[i - 1].state
           r == Step(pre, cur.e)
           d == IF r.ok /\ cur.ok THEN DiffFields(r.st, cur.state) ELSE {}
           rdiff == IF r.ok /\ cur.ok THEN {f \in DOMAIN r.resp : ~(f \in DOMAIN cur.resp) \/
                                              (IF f \in {"devs", "finding"} THEN r.resp[f] # {cur.resp[f][j] : j \in 1..Len(cur.resp[f])} ELSE r.resp[f] # cur.resp[f])} ELSE {}
           bad == IF Tainted(i) THEN {} ELSE FailedInvs(cur.state)
       IN /\ (r.ok = cur.ok \/ PrintT("DIV " \o ToJson([line |-> i, kind |-> "result", spec_ok |-> r.ok, failed |-> r.failed])))
          /\ (d = {} \/ PrintT("DIV " \o ToJson([line |-> i, kind |-> "state", fields |-> d, spec |-> [f \in d \cap DOMAIN r.st |-> r.st[f]]])))
          /\ (rdiff = {} \/ PrintT("DIV " \o ToJson([line |-> i, kind |-> "resp", spec |-> r.resp])))
          /\ (bad = {} \/ PrintT("INV " \o ToJson([line |-> i, failed |-> bad])))

ASSUME \A i \in 1..Len(Trace) : CheckLine(i)
ASSUME PrintT("TRACE " \o ToJson([lines |-> Len(Trace)]))

VARIABLE dummy
Init == dummy = 0
Next == UNCHANGED dummy
Spec == Init /\ [][Next]_dummy
=============================================================================
