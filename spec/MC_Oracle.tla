------------------------------ MODULE MC_Oracle ------------------------------
(* Bounded instance of Oracle.tla (C15): three known L1 validators and one unknown, every combination *)
(* of per-validator vote kinds plus duplicated / unknown extra votes, host-set refreshes in any order. *)
EXTENDS Oracle, Json

CONSTANTS Fam, Tier, Devs, FailCap
VARIABLES st, last
vars == <<st, last>>
Thorough == Tier = "thorough"

Pairs0 == {"BTC", "TS"}
Px(ts, p) == [kind |-> "prices", ts |-> ts, p |-> [BTC |-> p]]
NoExt == [kind |-> "none"]
Garbage == [kind |-> "garbage"]
Vote(v, flag, sig, ext) == [val |-> v, flag |-> flag, sig |-> sig, ext |-> ext]

(* vote kinds a validator may contribute *)
Kinds(v, T) ==
  { Vote(v, "commit", "ok", Px(T, 1)), Vote(v, "commit", "ok", Px(T, 2)), Vote(v, "absent", "missing", NoExt) }
  \cup (IF Thorough THEN { Vote(v, "commit", "ok", Px(T + 5, 1)), Vote(v, "commit", "ok", Px(0, 2)), Vote(v, "commit", "ok", NoExt), Vote(v, "nil", "missing", NoExt) } ELSE {})
BadKinds(v, T) ==
  { Vote(v, "commit", s, Px(T, 2)) : s \in {"bad", "missing", "wrongChain", "wrongHeight", "wrongRound", "swapped"} }
  \cup { Vote(v, "nil", "missing", Px(T, 2)), Vote(v, "absent", "ok", NoExt), Vote(v, "commit", "ok", Garbage) }
Extras(T) ==
  { << >>, << Vote("a", "commit", "ok", Px(T, 2)) >>, << Vote("z", "commit", "ok", Px(T, 2)) >>, << Vote("z", "commit", "bad", Px(T, 2)) >>,
    << Vote("z", "commit", "ok", Garbage) >>, << Vote("a", "commit", "ok", Px(T, 2)), Vote("a", "commit", "ok", Px(T, 2)) >>,
    \* repeated entries of validators that already voted, carrying other prices under a signature that does not verify
    << Vote("a", "commit", "bad", Px(T, 2)) >>,
    << Vote("a", "commit", "bad", Px(T, 2)), Vote("b", "commit", "bad", Px(T, 2)), Vote("c", "commit", "bad", Px(T, 2)) >> }

VoteLists(T) ==
  { <<x, y, z>> \o ex : x \in Kinds("a", T), y \in Kinds("b", T), z \in Kinds("c", T), ex \in Extras(T) }
  \cup { <<x, y>> \o ex : x \in Kinds("a", T), y \in Kinds("b", T), ex \in Extras(T) }
  \cup { <<x, y, z>> : x \in BadKinds("a", T), y \in Kinds("b", T), z \in Kinds("c", T) }
  \cup { <<y, z, x>> : x \in BadKinds("a", T), y \in {Vote("b", "commit", "ok", Px(T, 1))}, z \in {Vote("c", "commit", "ok", Px(T, 1))} }
  \cup { << >> }
(* five equal validators: four signed commits reach the quorum by themselves, the fifth vote is of every kind *)
Good(v, T, p) == Vote(v, "commit", "ok", Px(T, p))
FiveLists(T) ==
  { <<Good("a", T, 1), Good("b", T, 1), Good("c", T, 1), w, x>> :
      w \in {Good("d", T, 1), Vote("d", "commit", "ok", [kind |-> "prices", ts |-> T, p |-> [BTC |-> 0]])},
      x \in Kinds("e", T) \cup BadKinds("e", T) }

Sets == { [client |-> "cl1", height |-> 5, set |-> [a |-> 1, b |-> 1, c |-> 1]],
          [client |-> "cl1", height |-> 8, set |-> [a |-> 2, b |-> 1, c |-> 1]],
          [client |-> "cl1", height |-> 6, set |-> [a |-> 1, b |-> 1, c |-> 1, d |-> 1, e |-> 1]],
          [client |-> "cl1", height |-> 7, set |-> [a |-> 1, b |-> 1, z |-> 1]],      \* same size, one member replaced
          [client |-> "cl1", height |-> 9, set |-> [a |-> 1, b |-> 1]],               \* a strict subset with unchanged powers (a validator left the L1 set)
          [client |-> "cl1", height |-> 3, set |-> [z |-> 5]],
          [client |-> "other", height |-> 9, set |-> [z |-> 5]],
          [client |-> "", height |-> 9, set |-> [z |-> 5]] }

ClientEvents == {[type |-> "SetClient", signer |-> a, client |-> c, oracle |-> o] : a \in {"e1", "x"}, c \in {"cl1", "", "other"}, o \in BOOLEAN}
Events(s) ==
  { [type |-> "UpdateHostSet", client |-> x.client, height |-> x.height, set |-> x.set] : x \in Sets }
  \cup { [type |-> "UpdateOracle", signer |-> a, height |-> h, votes |-> vs] :
           a \in {"e1"}, h \in {9},
           vs \in LET T == IF s.price["TS"].ts < 10 THEN 10 ELSE 20 IN
                  IF Cardinality(DOMAIN s.hostVals) = 5 THEN FiveLists(T) ELSE VoteLists(T) }
  \cup ClientEvents
  \cup { [type |-> "UpdateOracle", signer |-> a, height |-> h, votes |-> <<Vote("a", "commit", "ok", Px(30, 1)), Vote("b", "commit", "ok", Px(30, 1)), Vote("c", "commit", "ok", Px(30, 1))>>] :
           a \in {"e1", "x"}, h \in {0, 4, 9} }

S0 == InitState(<<"e1">>, "cl1", "l1-chain", Fam # "disabled", Pairs0)
ASSUME PrintT("META " \o ToJson([execs |-> <<"e1">>, client |-> "cl1", chain |-> "l1-chain", enabled |-> Fam # "disabled", pairs |-> Pairs0, vals |-> {"a", "b", "c", "d", "e", "z"},
                                   accts |-> {"e1", "x", "adm", "opchild", "feecollector"}, denoms |-> {"n1"}, funded |-> [x |-> [n1 |-> 1]],
                                   params |-> [admin |-> "adm", execs |-> <<"e1">>, maxVals |-> 3, histEntries |-> 1, hookGas |-> "ample", fw |-> << >>], devs |-> Devs]))

Init == /\ st = S0
        /\ last = [e |-> [type |-> "Init"], ok |-> TRUE, resp |-> NoResp, failed |-> {}]
Next == \E e \in Events(st) :
          LET r == Step(st, e) IN
            /\ st' = r.st
            /\ last' = [e |-> e, ok |-> r.ok, resp |-> r.resp, failed |-> r.failed]
Spec == Init /\ [][Next]_vars
View == st
Emit ==
  \/ ~last'.ok /\ Cardinality(last'.failed) > FailCap /\ TLCGet("level") % 5 # 0
  \/ PrintT("EDGE " \o ToJson([from |-> st, e |-> last'.e, ok |-> last'.ok, resp |-> last'.resp,
                                failed |-> last'.failed, to |-> IF last'.ok THEN st' ELSE [same |-> TRUE]]))

----------------------------------------------------------------------------
NextOutcome == [e |-> last'.e, ok |-> last'.ok, resp |-> last'.resp, failed |-> last'.failed]
P_Oracle == [][QuorumSound(st, NextOutcome, st') /\ HeightNotOlder(st, NextOutcome, st') /\ HostSetOnlyForward(st, NextOutcome, st') /\ ClientBound(st, NextOutcome, st')]_vars
P_NoEffectOnReject == [][NoEffectOnReject(st, NextOutcome, st')]_vars
=============================================================================
