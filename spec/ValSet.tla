------------------------------- MODULE ValSet -------------------------------
(***************************************************************************)
(* Specification of the permissioned L2 validator set of x/opchild:         *)
(* msg_server.go (AddValidator, RemoveValidator, UpdateParams),             *)
(* val_state_change.go (ApplyAndReturnValidatorSetUpdates), validator.go,   *)
(* executor_change.go (RegisterExecutorChangePlan, ChangeExecutor),         *)
(* abci.go (BeginBlocker/EndBlocker), historical_info.go, genesis.go.       *)
(*                                                                         *)
(* s.vals[op]   = [key, power]  stored validator records                    *)
(* s.cons[key]  = op            consensus-address index                     *)
(* s.lastPow[op]= power         last power told to the consensus engine     *)
(* s.comet[key] = power         what the engine holds = fold of all batches *)
(* s.cometOK                    the engine accepted every batch so far      *)
(* s.hist[K(h)] = [key->power]  historical record written at BeginBlock h   *)
(* s.plans[K(h)]                registered executor-change plans (in memory)*)
(* s.phase      "pre" before genesis, "in" inside a block, "out" between    *)
(* s.halted                     block processing aborted (panic / error)    *)
(* s.rank[op]                   order of the operators' concrete addresses  *)
(***************************************************************************)
EXTENDS Integers, Sequences, FiniteSets, TLC

Put(f, k, v) == [x \in (DOMAIN f) \cup {k} |-> IF x = k THEN v ELSE f[x]]
Has(f, k)    == k \in DOMAIN f
EmptyMap     == [x \in {} |-> 0]
K(n)         == ToString(n)
AllTrue(g)   == \A n \in DOMAIN g : g[n]
FalseOnes(g) == {n \in DOMAIN g : ~g[n]}
Restrict(f, S) == [x \in S |-> f[x]]

BadAddrs     == {"bad:empty", "bad:notbech32", "bad:space"}      \* "bad:space": a string of blanks - not empty, not an address
ValidAddr(a) == a \notin BadAddrs
Authority    == "opchild"

(* operators in ascending address order *)
RECURSIVE SortOps(_, _)
SortOps(S, rank) ==
  IF S = {} THEN << >>
  ELSE LET m == CHOOSE x \in S : \A y \in S : rank[x] <= rank[y] IN <<m>> \o SortOps(S \ {m}, rank)

Bonded(s) == {o \in DOMAIN s.vals : s.vals[o].power > 0}

----------------------------------------------------------------------------
(* ApplyAndReturnValidatorSetUpdates (val_state_change.go), as written:      *)
(*  - positive-power validators whose power differs from the last one told   *)
(*    to the engine are updated, in store (= operator address) order;        *)
(*  - operators left in the last-power index (no record with positive power) *)
(*    are removed, in address order: record, consensus index of THAT record's *)
(*    key and last power are deleted, a zero-power update is appended;        *)
(*  - zero-power validators that were never bonded are dropped silently.      *)
(* A last-power entry without a validator record makes the function panic.    *)
Apply(vals, cons, lastPow, rank) ==
  LET ops     == DOMAIN vals
      changed == {o \in ops : vals[o].power > 0 /\ (~Has(lastPow, o) \/ lastPow[o] # vals[o].power)}
      gone    == {o \in DOMAIN lastPow : ~(Has(vals, o) /\ vals[o].power > 0)}
      orphan  == \E o \in gone : ~Has(vals, o)
      purge   == {o \in ops : vals[o].power <= 0 /\ ~Has(lastPow, o)}
      cs      == SortOps(changed, rank)
      gs      == SortOps(gone, rank)
      upd     == [i \in 1..Len(cs) |-> [key |-> vals[cs[i]].key, power |-> vals[cs[i]].power]]
      rem     == [i \in 1..Len(gs) |-> [key |-> vals[gs[i]].key, power |-> 0]]
      dead    == gone \cup purge
  IN IF orphan THEN [panic |-> TRUE]
     ELSE [panic |-> FALSE, batch |-> upd \o rem,
           vals  |-> Restrict(vals, ops \ dead),
           cons  |-> Restrict(cons, {k \in DOMAIN cons : \A o \in dead : vals[o].key # k}),
           lastPow |-> [o \in ((DOMAIN lastPow) \ gone) \cup changed |-> IF o \in changed THEN vals[o].power ELSE lastPow[o]]]

(* the consensus engine (CometBFT ValidatorSet.UpdateWithChangeSet): rejects a batch with a key    *)
(* twice, a negative power, the removal of a key it does not hold, or one that would empty the set *)
CometApply(comet, batch) ==
  LET idx  == 1..Len(batch)
      keys == {batch[i].key : i \in idx}
      dup  == Cardinality(keys) # Len(batch)
      bad  == \E i \in idx : batch[i].power < 0 \/ (batch[i].power = 0 /\ ~Has(comet, batch[i].key))
      keep == {k \in (DOMAIN comet) \cup keys : ~\E i \in idx : batch[i].key = k /\ batch[i].power = 0}
      next == [k \in keep |-> IF k \in keys THEN (CHOOSE p \in {batch[i].power : i \in {j \in idx : batch[j].key = k}} : TRUE) ELSE comet[k]]
  IN IF Len(batch) = 0 THEN [ok |-> TRUE, comet |-> comet]
     ELSE IF dup \/ bad \/ keep = {} THEN [ok |-> FALSE, comet |-> comet]
     ELSE [ok |-> TRUE, comet |-> next]

----------------------------------------------------------------------------
(* messages *)
NVals(s) == Cardinality(DOMAIN s.vals)
InBlock(s) == s.phase = "in" /\ ~s.halted

AddValidator_G(s, e) ==
  [ valid     |-> ValidAddr(e.signer) /\ ValidAddr(e.op) /\ e.key # "nil",
    authority |-> e.signer = Authority,
    capacity  |-> s.params.maxVals > NVals(s),
    newOp     |-> ~Has(s.vals, e.op),
    newKey    |-> ~(Has(s.cons, e.key) /\ Has(s.vals, s.cons[e.key])) ]   \* GetValidatorByConsAddr: index entry AND the record it points to
AddValidator_E(s, e) == [s EXCEPT !.vals = Put(@, e.op, [key |-> e.key, power |-> 1]), !.cons = Put(@, e.key, e.op)]

RemoveValidator_G(s, e) ==
  [ valid     |-> ValidAddr(e.signer) /\ ValidAddr(e.op),
    authority |-> e.signer = Authority,
    known     |-> Has(s.vals, e.op) ]
RemoveValidator_E(s, e) == [s EXCEPT !.vals = [@ EXCEPT ![e.op].power = 0]]

ParamsValid(p) == ValidAddr(p.admin) /\ (\A i \in 1..Len(p.execs) : ValidAddr(p.execs[i])) /\ p.maxVals > 0 /\ (\A i \in 1..Len(p.fw) : ValidAddr(p.fw[i]))
UpdateParams_G(s, e) ==
  [ valid     |-> ValidAddr(e.signer) /\ ParamsValid(e.params),
    authority |-> e.signer = Authority,
    capacity  |-> e.params.maxVals >= NVals(s) ]
UpdateParams_E(s, e) == [s EXCEPT !.params = e.params]

(* RegisterExecutorChangePlan: keeper API used by the upgrade handler; plans live in memory *)
RegisterPlan_G(s, e) ==
  [ valid      |-> e.id > 0 /\ e.height > 0 /\ ValidAddr(e.op) /\ e.key # "nil" /\ (\A i \in 1..Len(e.execs) : ValidAddr(e.execs[i])),
    freeHeight |-> ~Has(s.plans, K(e.height)) ]
RegisterPlan_E(s, e) == [s EXCEPT !.plans = Put(@, K(e.height), [id |-> e.id, op |-> e.op, key |-> e.key, execs |-> e.execs])]

----------------------------------------------------------------------------
(* BeginBlock(h): TrackHistoricalInfo.  The prune loop starts at h - histEntries and walks down *)
(* until the first height without a record.                                                      *)
RECURSIVE PruneFrom(_, _)
PruneFrom(hist, i) == IF i < 0 \/ ~Has(hist, K(i)) THEN hist ELSE PruneFrom(Restrict(hist, (DOMAIN hist) \ {K(i)}), i - 1)

BeginBlock_G(s, e) == [ phase |-> s.phase = "out" /\ ~s.halted ]
BeginBlock_E(s, e) ==
  LET h      == s.height + 1
      n      == s.params.histEntries
      pruned == PruneFrom(s.hist, IF n = 0 THEN h - 1 ELSE h - n)   \* with no retention the previous block's record is the newest to drop
      orphan == \E o \in DOMAIN s.lastPow : ~Has(s.vals, o)
      over   == Cardinality(DOMAIN s.lastPow) > s.params.maxVals
      rec    == [k \in {s.vals[o].key : o \in DOMAIN s.lastPow} |->
                   LET o == CHOOSE x \in DOMAIN s.lastPow : s.vals[x].key = k IN s.vals[o].power]
  IN IF n = 0 THEN [s EXCEPT !.height = h, !.phase = "in", !.hist = pruned]
     ELSE IF orphan \/ over THEN [s EXCEPT !.height = h, !.phase = "in", !.halted = TRUE]     \* BeginBlocker panics
     ELSE [s EXCEPT !.height = h, !.phase = "in", !.hist = Put(pruned, K(h), rec)]

(* EndBlock(h): apply a plan registered for h (ChangeExecutor), then the validator updates.      *)
ChangeExecutor(s, p) ==
  LET zero  == [o \in DOMAIN s.vals |-> [s.vals[o] EXCEPT !.power = 0]]
  IN [s EXCEPT !.vals = Put(zero, p.op, [key |-> p.key, power |-> 1]),
               !.cons = Put(s.cons, p.key, p.op),
               !.params = [@ EXCEPT !.execs = p.execs]]
PlanDevs(s, p) ==      \* situations in which the code's plan handling departs from the intended outcome
  (IF Has(s.vals, p.op) THEN {"PlanReusesOperator"} ELSE {})
  \cup (IF Has(s.cons, p.key) /\ Has(s.vals, s.cons[p.key]) /\ s.cons[p.key] # p.op THEN {"PlanReusesKey"} ELSE {})   \* index entry AND the record it points to

EndBlock_G(s, e) == [ phase |-> InBlock(s) ]
EndBlock_E(s, e) ==
  LET hk   == K(s.height)
      s1   == IF Has(s.plans, hk) THEN ChangeExecutor(s, s.plans[hk]) ELSE s
      a    == Apply(s1.vals, s1.cons, s1.lastPow, s.rank)
  IN IF a.panic THEN [s EXCEPT !.phase = "out", !.halted = TRUE]
     ELSE LET c == CometApply(s.comet, a.batch) IN
          [s1 EXCEPT !.phase = "out", !.vals = a.vals, !.cons = a.cons, !.lastPow = a.lastPow,
                     !.batch = a.batch, !.comet = c.comet, !.cometOK = s.cometOK /\ c.ok]
PlanOutcome(t, p) ==    \* what C14 promises at the end of the plan's block
  /\ ~t.halted /\ t.cometOK /\ t.comet = (p.key :> 1)
  /\ DOMAIN t.vals = {p.op} /\ t.vals[p.op] = [key |-> p.key, power |-> 1]
  /\ t.cons = (p.key :> p.op) /\ t.lastPow = (p.op :> 1) /\ t.params.execs = p.execs
EndBlock_R(s, e) ==
  LET hk == K(s.height) planned == Has(s.plans, hk)
      devs == IF planned THEN PlanDevs(s, s.plans[hk]) ELSE {}
      bad  == planned /\ ~PlanOutcome(EndBlock_E(s, e), s.plans[hk]) IN
  [planned |-> planned, devs |-> devs,
   finding |-> IF bad THEN (IF devs = {} THEN {"PlanNotApplied"} ELSE devs) ELSE {}]

(* InitGenesis(validators, params) on a fresh chain (not exported): records + index, then Apply.  *)
(* ValidateGenesis accepts: distinct consensus keys, valid params, at most maxVals validators.    *)
GenKeys(g) == {g.vals[i].key : i \in 1..Len(g.vals)}
GenOps(g)  == {g.vals[i].op : i \in 1..Len(g.vals)}
InitGenesis_G(s, e) ==
  [ phase    |-> s.phase = "pre",
    valid    |-> ParamsValid(e.params) /\ Cardinality(GenKeys(e)) = Len(e.vals) /\ Cardinality(GenOps(e)) = Len(e.vals),
    capacity |-> Len(e.vals) <= e.params.maxVals ]
InitGenesis_E(s, e) ==
  LET vals == [o \in GenOps(e) |-> LET i == CHOOSE j \in 1..Len(e.vals) : e.vals[j].op = o IN [key |-> e.vals[i].key, power |-> e.vals[i].power]]
      cons == [k \in GenKeys(e) |-> LET i == CHOOSE j \in 1..Len(e.vals) : e.vals[j].key = k IN e.vals[i].op]
      a    == Apply(vals, cons, EmptyMap, s.rank)
      c    == CometApply(EmptyMap, a.batch)
  IN [s EXCEPT !.phase = "out", !.params = e.params, !.vals = a.vals, !.cons = a.cons, !.lastPow = a.lastPow,
               !.batch = a.batch, !.comet = c.comet, !.cometOK = c.ok]

(* genesis round trip (between blocks, or of the working state inside a block): validators, powers, params are exported; history is not *)
ExportImport_G(s, e) ==
  [ phase |-> s.phase \in {"in", "out"} /\ ~s.halted,
    \* ValidateGenesis refuses two validator records with one consensus key - a state only the plan deviation PlanReusesKey (open known finding) reaches
    uniqueKeys |-> \A o1, o2 \in DOMAIN s.vals : o1 # o2 => s.vals[o1].key # s.vals[o2].key ]
ExportImport_E(s, e) ==
  \* InitGenesis(exported) returns one update per last-power entry; a fresh engine starts from exactly those
  LET upd == [k \in {s.vals[o].key : o \in DOMAIN s.lastPow} |-> LET o == CHOOSE x \in DOMAIN s.lastPow : s.vals[x].key = k IN s.lastPow[o]]
  IN [s EXCEPT !.hist = EmptyMap, !.comet = upd, !.cometOK = TRUE,
               !.cons = [k \in {s.vals[o].key : o \in DOMAIN s.vals} |-> CHOOSE o \in DOMAIN s.vals : s.vals[o].key = k],   \* the index is rebuilt from the validator records
               !.batch = [i \in 1..Len(SortOps(DOMAIN s.lastPow, s.rank)) |->
                            LET o == SortOps(DOMAIN s.lastPow, s.rank)[i] IN [key |-> s.vals[o].key, power |-> s.lastPow[o]]]]

----------------------------------------------------------------------------
(* ---- gRPC queries (keeper/querier.go, compatibility_grpc_query.go) and the staking-interface readers          *)
(* (alias_functions.go, staking.go).  A query never changes state; paginated ones take offset/limit/reverse.   *)
QRev(q) == [i \in 1..Len(q) |-> q[Len(q) + 1 - i]]
QPage(q, offset, limit, reverse) ==
  LET ord == IF reverse THEN QRev(q) ELSE q
      lim == IF limit = 0 THEN 100 ELSE limit
      to == IF offset + lim < Len(ord) THEN offset + lim ELSE Len(ord)
  IN IF offset + 1 > Len(ord) THEN << >> ELSE SubSeq(ord, offset + 1, to)
QTotal(q, offset) == IF offset > Len(q) THEN 0 ELSE Len(q)
ValRec(s, o) == [op |-> o, key |-> s.vals[o].key, power |-> s.vals[o].power]
Query_G(s, e) ==
  [ valid |-> e.q \in {"Validator"} => ValidAddr(e.op),
    found |-> CASE e.q = "Validator" -> ValidAddr(e.op) => Has(s.vals, e.op)
                [] e.q = "ValidatorByConsAddr" -> Has(s.cons, e.key) /\ Has(s.vals, s.cons[e.key])
                [] e.q = "LastValidators" -> \A o \in DOMAIN s.lastPow : Has(s.vals, o)
                [] OTHER -> TRUE ]
Query_R(s, e) ==
  CASE e.q = "Validators" -> [ops |-> QPage(SortOps(DOMAIN s.vals, s.rank), e.offset, e.limit, e.reverse), total |-> QTotal(SortOps(DOMAIN s.vals, s.rank), e.offset)]
    [] e.q = "Validator" -> ValRec(s, e.op)
    [] e.q = "ValidatorByConsAddr" -> ValRec(s, s.cons[e.key])
    [] e.q = "LastValidators" -> [vals |-> [i \in 1..Cardinality(DOMAIN s.lastPow) |-> LET o == SortOps(DOMAIN s.lastPow, s.rank)[i] IN [op |-> o, power |-> s.lastPow[o]]]]
    [] e.q = "Params" -> s.params
    [] e.q = "StakingParams" -> [maxVals |-> s.params.maxVals, histEntries |-> s.params.histEntries]

(* who holds the executor role: the accounts the stored strings decode to ("up:<name>" is <name> written in upper case) *)
ExecAcct(a) == CASE a = "up:e1" -> "e1" [] a = "up:e2" -> "e2" [] a = "up:e3" -> "e3" [] OTHER -> a
ExecProbe_G(s, e) == [ executor |-> \E i \in 1..Len(s.params.execs) : ExecAcct(s.params.execs[i]) = ExecAcct(e.signer) ]
Guards(s, e) ==
  CASE e.type = "AddValidator"    -> AddValidator_G(s, e)
    [] e.type = "ExecProbe"       -> ExecProbe_G(s, e)
    [] e.type = "RemoveValidator" -> RemoveValidator_G(s, e)
    [] e.type = "UpdateParams"    -> UpdateParams_G(s, e)
    [] e.type = "RegisterPlan"    -> RegisterPlan_G(s, e)
    [] e.type = "BeginBlock"      -> BeginBlock_G(s, e)
    [] e.type = "EndBlock"        -> EndBlock_G(s, e)
    [] e.type = "InitGenesis"     -> InitGenesis_G(s, e)
    [] e.type = "ExportImport"    -> ExportImport_G(s, e)
    [] e.type = "Query"           -> Query_G(s, e)
Effect(s, e) ==
  CASE e.type = "AddValidator"    -> AddValidator_E(s, e)
    [] e.type = "ExecProbe"       -> s
    [] e.type = "RemoveValidator" -> RemoveValidator_E(s, e)
    [] e.type = "UpdateParams"    -> UpdateParams_E(s, e)
    [] e.type = "RegisterPlan"    -> RegisterPlan_E(s, e)
    [] e.type = "BeginBlock"      -> BeginBlock_E(s, e)
    [] e.type = "EndBlock"        -> EndBlock_E(s, e)
    [] e.type = "InitGenesis"     -> InitGenesis_E(s, e)
    [] e.type = "ExportImport"    -> ExportImport_E(s, e)
    [] e.type = "Query"           -> s
Resp(s, e) ==
  CASE e.type = "EndBlock" -> EndBlock_R(s, e)
    [] e.type \in {"AddValidator", "RemoveValidator"} -> [op |-> e.op]
    [] e.type = "RegisterPlan" -> [height |-> e.height]
    [] e.type = "ExportImport" -> [same |-> TRUE]
    [] e.type = "Query" -> Query_R(s, e)
    [] OTHER -> [ok |-> TRUE]

NoResp == [none |-> TRUE]
Step(s, e) ==
  LET g == Guards(s, e) ok == AllTrue(g) IN
  [ ok |-> ok, st |-> IF ok THEN Effect(s, e) ELSE s, resp |-> IF ok THEN Resp(s, e) ELSE NoResp, failed |-> FalseOnes(g) ]

InitState(params, rank) ==
  [ height |-> 0, phase |-> "pre", halted |-> FALSE, params |-> params, rank |-> rank,
    vals |-> EmptyMap, cons |-> EmptyMap, lastPow |-> EmptyMap, comet |-> EmptyMap, cometOK |-> TRUE,
    hist |-> EmptyMap, plans |-> EmptyMap, batch |-> << >> ]
=============================================================================
