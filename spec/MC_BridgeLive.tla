---------------------------- MODULE MC_BridgeLive ----------------------------
(***************************************************************************)
(* The liveness half of C08: once the users stop (they have a finite budget *)
(* of operations), a faithful executor, an honest proposer, the passage of   *)
(* time and claimants - each only weakly fair - drain the bridge: every      *)
(* deposit is finalized on the L2, every recorded withdrawal with a valid    *)
(* recipient is paid on the L1, and it stays that way.                       *)
(* Checked by TLC under SPECIFICATION LiveSpec: no state constraint, no VIEW, *)
(* a single variable (TLC's liveness checking is not sound with either).     *)
(***************************************************************************)
EXTENDS Bridge

VARIABLE st

L1Accts  == {"gov", "p1", "c1", "u1", "u2", "x", "esc1", "esc2", "pool"}
L1Denoms == {"d1"}
L2Accts  == {"e1", "adm", "u1", "u2", "x", "opchild", "feecollector"}
L2Denoms == {"l2/1/d1"}
Params0  == [admin |-> "adm", execs |-> <<"e1">>, maxVals |-> 3, histEntries |-> 1, hookGas |-> "ample", fw |-> << >>]

Created ==
  LET s0 == [ l1 |-> L1!InitState({"1", "2"}, L1Accts, L1Denoms, {"u1", "u2"}, 4, "d1", {"ch1"}, 3, 1, {}),
              l2 |-> L2!InitState(L2Accts, L2Denoms, {}, [x \in {} |-> 0], Params0, 3, {}),
              deps |-> << >>, wds |-> << >>, trees |-> [x \in {} |-> 0] ]
      create == [chain |-> "L1", e |-> [type |-> "CreateBridge", signer |-> "x", cfg |->
                   [proposer |-> "p1", challenger |-> "c1", period |-> 2, interval |-> 2, startH |-> 1, oracle |-> FALSE,
                    meta |-> [cls |-> "none", chs |-> << >>], bsub |-> "s1", bchain |-> "INITIA"]]]
  IN Step(s0, create).st

Init == st = Created

Do(e) == LET r == Step(st, e) IN r.ok /\ st' = r.st

(* users: a finite budget, no fairness *)
UserNext ==
  \/ Len(st.deps) < 2 /\ \E e \in {UserDeposit("u1", "u1", "d1", 2), UserDeposit("u2", "bad:notbech32", "d1", 1)} : Do(e)
  \/ Len(st.wds) < 2 /\ \E e \in {UserWithdraw("u1", "u2", "d1", 1)} : Do(e)
  \/ st.l2.bal["u1"][L2D("d1")] >= 2 /\ st.l2.bal["u2"][L2D("d1")] = 0 /\ Do(L2Transfer("u1", "u2", "d1", 1))

(* the system roles *)
RelayNext == st.l2.seqL1 <= Len(st.deps) /\ Do(Relay(st, "e1", st.l2.seqL1))
Covered(s) == IF DOMAIN s.trees = {} THEN 0 ELSE LET n == s.l1.nextOut[K(B)] - 1 IN IF Has(s.trees, K(n)) THEN s.trees[K(n)] ELSE 0
ProposeNew == Len(st.wds) > Covered(st) /\ Do(Propose(st, "p1"))
SomeNotFinal(s) == \E o \in 1..(s.l1.nextOut[K(B)] - 1) : Has(s.l1.outs[K(B)], K(o)) /\ ~L1!IsFinalAt(s.l1, B, s.l1.outs[K(B)][K(o)])
AdvanceTime == SomeNotFinal(st) /\ Do(Advance(2))
ClaimSome == \E i \in 1..Len(st.wds) : \E out \in 1..(st.l1.nextOut[K(B)] - 1) : Claimable(st, i, out) /\ Do(Claim(st, "x", i, out))
(* a duplicate relay and a stranger's relay change nothing *)
Noise == st.l2.seqL1 > 1 /\ \E a \in {"e1", "x"} : LET r == Step(st, Relay(st, a, 1)) IN st' = r.st

Next == UserNext \/ RelayNext \/ ProposeNew \/ AdvanceTime \/ ClaimSome \/ Noise
LiveSpec == Init /\ [][Next]_st /\ WF_st(RelayNext) /\ WF_st(ProposeNew) /\ WF_st(AdvanceTime) /\ WF_st(ClaimSome)

(* without fairness of the claimants the bridge need not drain: used by `check selftest` to show the property can fail *)
UnfairSpec == Init /\ [][Next]_st /\ WF_st(RelayNext) /\ WF_st(ProposeNew) /\ WF_st(AdvanceTime)

EventuallyDrained == <>[](Drained(st) /\ Solvency(st, L1Denoms))
SolvencyAlways == [](Solvency(st, L1Denoms))
=============================================================================
