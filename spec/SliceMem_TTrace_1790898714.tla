---- MODULE SliceMem_TTrace_1790898714 ----
EXTENDS Sequences, SliceMem, TLCExt, Toolbox, Naturals, TLC

_expression ==
    LET SliceMem_TEExpression == INSTANCE SliceMem_TEExpression
    IN SliceMem_TEExpression!expression
----

_trace ==
    LET SliceMem_TETrace == INSTANCE SliceMem_TETrace
    IN SliceMem_TETrace!trace
----

_inv ==
    ~(
        TLCGet("level") = Len(_TETrace)
        /\
        layout = (<<"shared", "own-exact", "shared">>)
        /\
        cmps = (<<FALSE>>)
        /\
        data = ("N(L,P1)")
        /\
        mem = ([S |-> <<"P1", "L">>, B1 |-> <<>>, B2 |-> <<"P2">>, B3 |-> <<>>])
        /\
        wrote = (TRUE)
        /\
        step = (2)
        /\
        items = (<<[buf |-> "S", off |-> 1, len |-> 1, cap |-> 2], [buf |-> "B2", off |-> 1, len |-> 1, cap |-> 1], [buf |-> "S", off |-> 2, len |-> 1, cap |-> 1]>>)
    )
----

_init ==
    /\ items = _TETrace[1].items
    /\ wrote = _TETrace[1].wrote
    /\ data = _TETrace[1].data
    /\ cmps = _TETrace[1].cmps
    /\ layout = _TETrace[1].layout
    /\ step = _TETrace[1].step
    /\ mem = _TETrace[1].mem
----

_next ==
    /\ \E i,j \in DOMAIN _TETrace:
        /\ \/ /\ j = i + 1
              /\ i = TLCGet("level")
        /\ items  = _TETrace[i].items
        /\ items' = _TETrace[j].items
        /\ wrote  = _TETrace[i].wrote
        /\ wrote' = _TETrace[j].wrote
        /\ data  = _TETrace[i].data
        /\ data' = _TETrace[j].data
        /\ cmps  = _TETrace[i].cmps
        /\ cmps' = _TETrace[j].cmps
        /\ layout  = _TETrace[i].layout
        /\ layout' = _TETrace[j].layout
        /\ step  = _TETrace[i].step
        /\ step' = _TETrace[j].step
        /\ mem  = _TETrace[i].mem
        /\ mem' = _TETrace[j].mem

\* Uncomment the ASSUME below to write the states of the error trace
\* to the given file in Json format. Note that you can pass any tuple
\* to `JsonSerialize`. For example, a sub-sequence of _TETrace.
    \* ASSUME
    \*     LET J == INSTANCE Json
    \*         IN J!JsonSerialize("SliceMem_TTrace_1790898714.json", _TETrace)

=============================================================================

 Note that you can extract this module `SliceMem_TEExpression`
  to a dedicated file to reuse `expression` (the module in the 
  dedicated `SliceMem_TEExpression.tla` file takes precedence 
  over the module `SliceMem_TEExpression` below).

---- MODULE SliceMem_TEExpression ----
EXTENDS Sequences, SliceMem, TLCExt, Toolbox, Naturals, TLC

expression == 
    [
        \* To hide variables of the `SliceMem` spec from the error trace,
        \* remove the variables below.  The trace will be written in the order
        \* of the fields of this record.
        items |-> items
        ,wrote |-> wrote
        ,data |-> data
        ,cmps |-> cmps
        ,layout |-> layout
        ,step |-> step
        ,mem |-> mem
        
        \* Put additional constant-, state-, and action-level expressions here:
        \* ,_stateNumber |-> _TEPosition
        \* ,_itemsUnchanged |-> items = items'
        
        \* Format the `items` variable as Json value.
        \* ,_itemsJson |->
        \*     LET J == INSTANCE Json
        \*     IN J!ToJson(items)
        
        \* Lastly, you may build expressions over arbitrary sets of states by
        \* leveraging the _TETrace operator.  For example, this is how to
        \* count the number of times a spec variable changed up to the current
        \* state in the trace.
        \* ,_itemsModCount |->
        \*     LET F[s \in DOMAIN _TETrace] ==
        \*         IF s = 1 THEN 0
        \*         ELSE IF _TETrace[s].items # _TETrace[s-1].items
        \*             THEN 1 + F[s-1] ELSE F[s-1]
        \*     IN F[_TEPosition - 1]
    ]

=============================================================================



Parsing and semantic processing can take forever if the trace below is long.
 In this case, it is advised to uncomment the module below to deserialize the
 trace from a generated binary file.

\*
\*---- MODULE SliceMem_TETrace ----
\*EXTENDS IOUtils, SliceMem, TLC
\*
\*trace == IODeserialize("SliceMem_TTrace_1790898714.bin", TRUE)
\*
\*=============================================================================
\*

---- MODULE SliceMem_TETrace ----
EXTENDS SliceMem, TLC

trace == 
    <<
    ([layout |-> <<"shared", "own-exact", "shared">>,cmps |-> <<>>,data |-> "L",mem |-> [S |-> <<"P1", "P3">>, B1 |-> <<>>, B2 |-> <<"P2">>, B3 |-> <<>>],wrote |-> FALSE,step |-> 1,items |-> <<[buf |-> "S", off |-> 1, len |-> 1, cap |-> 2], [buf |-> "B2", off |-> 1, len |-> 1, cap |-> 1], [buf |-> "S", off |-> 2, len |-> 1, cap |-> 1]>>]),
    ([layout |-> <<"shared", "own-exact", "shared">>,cmps |-> <<FALSE>>,data |-> "N(L,P1)",mem |-> [S |-> <<"P1", "L">>, B1 |-> <<>>, B2 |-> <<"P2">>, B3 |-> <<>>],wrote |-> TRUE,step |-> 2,items |-> <<[buf |-> "S", off |-> 1, len |-> 1, cap |-> 2], [buf |-> "B2", off |-> 1, len |-> 1, cap |-> 1], [buf |-> "S", off |-> 2, len |-> 1, cap |-> 1]>>])
    >>
----


=============================================================================

---- CONFIG SliceMem_TTrace_1790898714 ----
CONSTANTS
    HowPreimage = "append"
    NItems = 3

INVARIANT
    _inv

CHECK_DEADLOCK
    \* CHECK_DEADLOCK off because of PROPERTY or INVARIANT above.
    FALSE

INIT
    _init

NEXT
    _next

CONSTANT
    _TETrace <- _trace

ALIAS
    _expression
=============================================================================
\* Generated on Thu Oct 01 23:51:56 UTC 2026