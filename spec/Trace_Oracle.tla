------------------------------ MODULE Trace_Oracle ------------------------------
(* Engine E3 for the oracle relay (C15): validates a history recorded from the real keeper (host validator sets  *)
(* of up to seven validators with unequal powers, vote lists in any order with every vote kind) against           *)
(* Oracle!Step and evaluates QuorumSound / HeightNotOlder / HostSetOnlyForward / NoEffectOnReject on the OBSERVED  *)
(* pre/post states of every recorded step (see Trace_L1 for the scheme).                                          *)
EXTENDS Oracle, Json

CONSTANT TraceFile
Trace == ndJsonDeserialize(TraceFile)

IsReset(x) == "reset" \in DOMAIN x
DiffFields(a, b) == {f \in (DOMAIN a) \cup (DOMAIN b) : ~(f \in DOMAIN a /\ f \in DOMAIN b /\ a[f] = b[f])}

FailedSteps(pre, cur) ==
  LET o == [e |-> cur.e, ok |-> cur.ok, resp |-> cur.resp, failed |-> {}] IN
  (IF QuorumSound(pre, o, cur.state) THEN {} ELSE {"QuorumSound"})
  \cup (IF HeightNotOlder(pre, o, cur.state) THEN {} ELSE {"HeightNotOlder"})
  \cup (IF HostSetOnlyForward(pre, o, cur.state) THEN {} ELSE {"HostSetOnlyForward"})
  \cup (IF NoEffectOnReject(pre, o, cur.state) THEN {} ELSE {"NoEffectOnReject"})
  \cup (IF ClientBound(pre, o, cur.state) THEN {} ELSE {"ClientBound"})

CheckLine(i) ==
  LET cur == Trace[i] IN
  IF IsReset(cur) THEN TRUE
  ELSE LET pre == Trace[i - 1].state
           r == Step(pre, cur.e)
           d == IF r.ok /\ cur.ok THEN DiffFields(r.st, cur.state) ELSE {}
           rd == r.ok /\ cur.ok /\ r.resp # cur.resp
           bad == FailedSteps(pre, cur)
       IN /\ (r.ok = cur.ok \/ PrintT("DIV " \o ToJson([line |-> i, kind |-> "result", spec_ok |-> r.ok, failed |-> r.failed])))
          /\ (d = {} \/ PrintT("DIV " \o ToJson([line |-> i, kind |-> "state", fields |-> d, spec |-> [f \in d \cap DOMAIN r.st |-> r.st[f]]])))
          /\ (~rd \/ PrintT("DIV " \o ToJson([line |-> i, kind |-> "resp", spec |-> r.resp])))
          /\ (bad = {} \/ PrintT("INV " \o ToJson([line |-> i, failed |-> bad])))

ASSUME \A i \in 1..Len(Trace) : CheckLine(i)
ASSUME PrintT("TRACE " \o ToJson([lines |-> Len(Trace)]))

VARIABLE dummy
Init == dummy = 0
Next == UNCHANGED dummy
Spec == Init /\ [][Next]_dummy
=============================================================================
