--------------------------- MODULE OutputOracleInd ---------------------------
(***************************************************************************)
(* The output-oracle fragment of L1Host (one bridge: propose / delete /      *)
(* advance time) with UNBOUNDED integers for L2 block numbers, times and the *)
(* finalization period, written for Apalache.  IndInv is shown inductive     *)
(* (Init => IndInv, IndInv /\ Next => IndInv') and to imply the C11 / C05     *)
(* structure properties, so those hold for logs of up to MaxLen outputs over  *)
(* arbitrary block numbers, times and positive periods - not only the small   *)
(* values TLC enumerates.  Time is in half-second ticks; finality compares    *)
(* whole seconds (x \div 2), as isFinalizedWithConfig does.                   *)
(***************************************************************************)
EXTENDS Integers, Sequences, Apalache

(* logs of up to MaxLen outputs (a bound on the data structure only; all integers are unbounded) *)
MaxLen == 4

VARIABLES
  \* @type: Seq({l2bn: Int, t: Int});
  outs,
  \* @type: Int;
  now,
  \* @type: Int;
  period

Unix(x) == x \div 2
Final(j) == Unix(now) >= Unix(outs[j].t + period)

Init ==
  /\ outs = << >>
  /\ now = 0
  /\ period \in Int
  /\ period > 0

Propose ==
  \E n \in Int :
    /\ Len(outs) < MaxLen
    /\ (Len(outs) = 0 \/ n > outs[Len(outs)].l2bn)
    /\ outs' = Append(outs, [l2bn |-> n, t |-> now])
    /\ UNCHANGED <<now, period>>

Delete ==
  \E i \in 1..MaxLen :
    /\ i <= Len(outs)
    /\ \A j \in 1..MaxLen : (i <= j /\ j <= Len(outs)) => ~Final(j)
    /\ outs' = SubSeq(outs, 1, i - 1)
    /\ UNCHANGED <<now, period>>

Advance ==
  \E d \in Int :
    /\ d >= 0
    /\ now' = now + d
    /\ UNCHANGED <<outs, period>>

Next == Propose \/ Delete \/ Advance

(* candidate inductive invariant: constrains every variable *)
IndInv ==
  /\ Len(outs) <= MaxLen
  /\ period > 0
  /\ now >= 0
  /\ \A j \in 1..MaxLen : j <= Len(outs) => (outs[j].t >= 0 /\ outs[j].t <= now)
  /\ \A j \in 1..MaxLen : (j >= 2 /\ j <= Len(outs)) => (outs[j - 1].l2bn < outs[j].l2bn /\ outs[j - 1].t <= outs[j].t)

(* an arbitrary state satisfying IndInv: Gen produces an unconstrained value of the variable's type (sequences of up to MaxLen records) *)
IndInit ==
  /\ outs = Gen(4)
  /\ now = Gen(1)
  /\ period = Gen(1)
  /\ IndInv

(* what C11 / C05 state about the log *)
L2Increasing == \A i, j \in 1..MaxLen : (i < j /\ j <= Len(outs)) => outs[i].l2bn < outs[j].l2bn
TimeMonotone == \A i, j \in 1..MaxLen : (i < j /\ j <= Len(outs)) => outs[i].t <= outs[j].t
FinalPrefix  == \A i, j \in 1..MaxLen : (i < j /\ j <= Len(outs) /\ Final(j)) => Final(i)
Structure == L2Increasing /\ TimeMonotone /\ FinalPrefix

(* finality is irreversible and final outputs are never deleted: an action property, checked as a 2-state invariant *)
\* @type: () => Bool;
FinalStays ==
  \A j \in 1..MaxLen :
    (j <= Len(outs) /\ Final(j)) =>
       (j <= Len(outs') /\ outs'[j] = outs[j] /\ Unix(now') >= Unix(outs'[j].t + period'))
(* sanity of the tool chain (expected to FAIL): used by `check selftest` to show the Apalache obligations are not vacuous *)
BogusShort == Len(outs) <= 3
\* @type: () => Bool;
BogusDeleteFinal == \A j \in 1..MaxLen : j <= Len(outs) => j <= Len(outs')
=============================================================================
