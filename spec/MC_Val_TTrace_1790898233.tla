---- MODULE MC_Val_TTrace_1790898233 ----
EXTENDS Sequences, TLCExt, Toolbox, MC_Val, Naturals, TLC

_expression ==
    LET MC_Val_TEExpression == INSTANCE MC_Val_TEExpression
    IN MC_Val_TEExpression!expression
----

_trace ==
    LET MC_Val_TETrace == INSTANCE MC_Val_TETrace
    IN MC_Val_TETrace!trace
----

_inv ==
    ~(
        TLCGet("level") = Len(_TETrace)
        /\
        st = ([hist |-> ("1" :> <<>>), params |-> [maxVals |-> 1, admin |-> "adm", execs |-> <<"e1">>, histEntries |-> 0, hookGas |-> "ample", fw |-> <<>>], vals |-> <<>>, height |-> 1, plans |-> <<>>, cons |-> <<>>, lastPow |-> <<>>, rank |-> [v1 |-> 1, v2 |-> 2, v3 |-> 3], batch |-> <<>>, comet |-> <<>>, phase |-> "in", halted |-> FALSE, cometOK |-> TRUE])
        /\
        last = ([e |-> [params |-> [maxVals |-> 1, admin |-> "adm", execs |-> <<"e1">>, histEntries |-> 0, hookGas |-> "ample", fw |-> <<>>], type |-> "UpdateParams", signer |-> "opchild"], ok |-> TRUE, resp |-> [ok |-> TRUE], failed |-> {}])
    )
----

_init ==
    /\ last = _TETrace[1].last
    /\ st = _TETrace[1].st
----

_next ==
    /\ \E i,j \in DOMAIN _TETrace:
        /\ \/ /\ j = i + 1
              /\ i = TLCGet("level")
        /\ last  = _TETrace[i].last
        /\ last' = _TETrace[j].last
        /\ st  = _TETrace[i].st
        /\ st' = _TETrace[j].st

\* Uncomment the ASSUME below to write the states of the error trace
\* to the given file in Json format. Note that you can pass any tuple
\* to `JsonSerialize`. For example, a sub-sequence of _TETrace.
    \* ASSUME
    \*     LET J == INSTANCE Json
    \*         IN J!JsonSerialize("MC_Val_TTrace_1790898233.json", _TETrace)

=============================================================================

 Note that you can extract this module `MC_Val_TEExpression`
  to a dedicated file to reuse `expression` (the module in the 
  dedicated `MC_Val_TEExpression.tla` file takes precedence 
  over the module `MC_Val_TEExpression` below).

---- MODULE MC_Val_TEExpression ----
EXTENDS Sequences, TLCExt, Toolbox, MC_Val, Naturals, TLC

expression == 
    [
        \* To hide variables of the `MC_Val` spec from the error trace,
        \* remove the variables below.  The trace will be written in the order
        \* of the fields of this record.
        last |-> last
        ,st |-> st
        
        \* Put additional constant-, state-, and action-level expressions here:
        \* ,_stateNumber |-> _TEPosition
        \* ,_lastUnchanged |-> last = last'
        
        \* Format the `last` variable as Json value.
        \* ,_lastJson |->
        \*     LET J == INSTANCE Json
        \*     IN J!ToJson(last)
        
        \* Lastly, you may build expressions over arbitrary sets of states by
        \* leveraging the _TETrace operator.  For example, this is how to
        \* count the number of times a spec variable changed up to the current
        \* state in the trace.
        \* ,_lastModCount |->
        \*     LET F[s \in DOMAIN _TETrace] ==
        \*         IF s = 1 THEN 0
        \*         ELSE IF _TETrace[s].last # _TETrace[s-1].last
        \*             THEN 1 + F[s-1] ELSE F[s-1]
        \*     IN F[_TEPosition - 1]
    ]

=============================================================================



Parsing and semantic processing can take forever if the trace below is long.
 In this case, it is advised to uncomment the module below to deserialize the
 trace from a generated binary file.

\*
\*---- MODULE MC_Val_TETrace ----
\*EXTENDS IOUtils, MC_Val, TLC
\*
\*trace == IODeserialize("MC_Val_TTrace_1790898233.bin", TRUE)
\*
\*=============================================================================
\*

---- MODULE MC_Val_TETrace ----
EXTENDS MC_Val, TLC

trace == 
    <<
    ([st |-> [hist |-> <<>>, params |-> [maxVals |-> 3, admin |-> "adm", execs |-> <<"e1">>, histEntries |-> 1, hookGas |-> "ample", fw |-> <<>>], vals |-> <<>>, height |-> 0, plans |-> <<>>, cons |-> <<>>, lastPow |-> <<>>, rank |-> [v1 |-> 1, v2 |-> 2, v3 |-> 3], batch |-> <<>>, comet |-> <<>>, phase |-> "pre", halted |-> FALSE, cometOK |-> TRUE],last |-> [e |-> [type |-> "Init"], ok |-> TRUE, resp |-> [none |-> TRUE], failed |-> {}]]),
    ([st |-> [hist |-> <<>>, params |-> [maxVals |-> 1, admin |-> "adm", execs |-> <<"e1">>, histEntries |-> 1, hookGas |-> "ample", fw |-> <<>>], vals |-> <<>>, height |-> 0, plans |-> <<>>, cons |-> <<>>, lastPow |-> <<>>, rank |-> [v1 |-> 1, v2 |-> 2, v3 |-> 3], batch |-> <<>>, comet |-> <<>>, phase |-> "out", halted |-> FALSE, cometOK |-> TRUE],last |-> [e |-> [params |-> [maxVals |-> 1, admin |-> "adm", execs |-> <<"e1">>, histEntries |-> 1, hookGas |-> "ample", fw |-> <<>>], type |-> "InitGenesis", vals |-> <<>>], ok |-> TRUE, resp |-> [ok |-> TRUE], failed |-> {}]]),
    ([st |-> [hist |-> ("1" :> <<>>), params |-> [maxVals |-> 1, admin |-> "adm", execs |-> <<"e1">>, histEntries |-> 1, hookGas |-> "ample", fw |-> <<>>], vals |-> <<>>, height |-> 1, plans |-> <<>>, cons |-> <<>>, lastPow |-> <<>>, rank |-> [v1 |-> 1, v2 |-> 2, v3 |-> 3], batch |-> <<>>, comet |-> <<>>, phase |-> "in", halted |-> FALSE, cometOK |-> TRUE],last |-> [e |-> [type |-> "BeginBlock"], ok |-> TRUE, resp |-> [ok |-> TRUE], failed |-> {}]]),
    ([st |-> [hist |-> ("1" :> <<>>), params |-> [maxVals |-> 1, admin |-> "adm", execs |-> <<"e1">>, histEntries |-> 0, hookGas |-> "ample", fw |-> <<>>], vals |-> <<>>, height |-> 1, plans |-> <<>>, cons |-> <<>>, lastPow |-> <<>>, rank |-> [v1 |-> 1, v2 |-> 2, v3 |-> 3], batch |-> <<>>, comet |-> <<>>, phase |-> "in", halted |-> FALSE, cometOK |-> TRUE],last |-> [e |-> [params |-> [maxVals |-> 1, admin |-> "adm", execs |-> <<"e1">>, histEntries |-> 0, hookGas |-> "ample", fw |-> <<>>], type |-> "UpdateParams", signer |-> "opchild"], ok |-> TRUE, resp |-> [ok |-> TRUE], failed |-> {}]])
    >>
----


=============================================================================

---- CONFIG MC_Val_TTrace_1790898233 ----
CONSTANTS
    Fam = "valset"
    Tier = "quick"
    Devs = { }
    FailCap = 1

INVARIANT
    _inv

CHECK_DEADLOCK
    \* CHECK_DEADLOCK off because of PROPERTY or INVARIANT above.
    FALSE

INIT
    _init

NEXT
    _next

CONSTANT
    _TETrace <- _trace

ALIAS
    _expression
=============================================================================
\* Generated on Thu Oct 01 23:43:54 UTC 2026