------------------------------- MODULE MC_L2 -------------------------------
(***************************************************************************)
(* Bounded instances of L2Child (see MC_L1 for the scheme).  Families:      *)
(*   "relay"   : C06  every delivery schedule of three pending deposits     *)
(*   "deposit" : C07 C09  deposit outcomes x hooks x faults, withdrawals    *)
(*   "auth"    : C12  every L2 message type x every signer x rotations      *)
(***************************************************************************)
EXTENDS L2Child, Json

CONSTANTS Fam, Tier, Devs, FailCap
VARIABLES st, last
vars == <<st, last>>
Thorough == Tier = "thorough"

D1 == "l2/1/d1"
D2 == "l2/1/d2"
N1 == "n1"
Accts  == {"e1", "e2", "adm", "u1", "u2", "u3", "x", "opchild", "feecollector"}
Denoms == {D1, D2, N1}
Funded == [u1 |-> [n1 |-> 3], feecollector |-> [n1 |-> 2], opchild |-> [n1 |-> 1]]
Params0 == [admin |-> "adm", execs |-> <<"e1", "e2">>, maxVals |-> 3, histEntries |-> 1, hookGas |-> "ample", fw |-> << >>]

NoHook == [kind |-> "none", signer |-> "", msgs |-> << >>]
Dep(signer, seq, from, to, denom, amt, base, hook, fault) ==
  [type |-> "FinalizeTokenDeposit", signer |-> signer, seq |-> seq, from |-> from, to |-> to, denom |-> denom,
   amt |-> amt, base |-> base, height |-> 5, hook |-> hook, fault |-> fault]
Wd(signer, to, denom, amt) == [type |-> "InitiateTokenWithdrawal", signer |-> signer, to |-> to, denom |-> denom, amt |-> amt]
Upd(signer, p) == [type |-> "UpdateParams", signer |-> signer, params |-> p]
Send(a, b, d, n) == [type |-> "BankSend", signer |-> a, to |-> b, denom |-> d, amt |-> n]

(* C06: the pending L1 deposits (content fixed per sequence, as a faithful relayer would deliver them) *)
Pending == << [from |-> "u2", to |-> "u1", denom |-> D1, amt |-> 2, base |-> "d1"],
              [from |-> "u2", to |-> "bad:notbech32", denom |-> D1, amt |-> 1, base |-> "d1"],
              [from |-> "u1", to |-> "u2", denom |-> D2, amt |-> 1, base |-> "d2"],
              [from |-> "u1", to |-> "u2", denom |-> D1, amt |-> 0, base |-> "d1"] >>
RelayEvents(s) ==
  {Dep(a, q, Pending[q].from, Pending[q].to, Pending[q].denom, Pending[q].amt, Pending[q].base, NoHook, "none") :
      a \in {"e1", "e2", "x"}, q \in 1..(IF Thorough THEN 4 ELSE 3)}
  \cup {Dep("e1", 0, "u2", "u1", D1, 1, "d1", NoHook, "none")}
  \cup {Wd("u1", "u2", D1, 1)}
  \cup (IF Len(s.params.execs) = 2 THEN {Upd("opchild", [s.params EXCEPT !.execs = <<"e2">>])} ELSE {})

HookMsgs(signer, msgs) == [kind |-> "msgs", signer |-> signer, msgs |-> msgs]
Hooks == { NoHook,
           [kind |-> "undecodable", signer |-> "", msgs |-> << >>],
           [kind |-> "badSig", signer |-> "u1", msgs |-> << [kind |-> "send", to |-> "u3", denom |-> D1, amt |-> 1] >>],
           HookMsgs("u1", << [kind |-> "send", to |-> "u3", denom |-> D1, amt |-> 1] >>),
           HookMsgs("u1", << [kind |-> "send", to |-> "u3", denom |-> D1, amt |-> 3] >>),
           HookMsgs("u1", << [kind |-> "send", to |-> "u3", denom |-> D1, amt |-> 1], [kind |-> "send", to |-> "u3", denom |-> D1, amt |-> 3] >>),
           HookMsgs("u1", << [kind |-> "send", to |-> "u3", denom |-> D1, amt |-> 1], [kind |-> "send", to |-> "panic", denom |-> D1, amt |-> 1] >>),
           HookMsgs("u2", << [kind |-> "send", to |-> "u3", denom |-> N1, amt |-> 1] >>),
           \* hooks that send (part of) the deposit straight back to the L1
           HookMsgs("u1", << [kind |-> "withdraw", to |-> "u2", denom |-> D1, amt |-> 1] >>),
           HookMsgs("u1", << [kind |-> "withdraw", to |-> "u2", denom |-> D1, amt |-> 1], [kind |-> "withdraw", to |-> "u3", denom |-> D1, amt |-> 1] >>),
           HookMsgs("u1", << [kind |-> "withdraw", to |-> "u2", denom |-> D1, amt |-> 1], [kind |-> "send", to |-> "u3", denom |-> D1, amt |-> 3] >>),
           HookMsgs("u1", << [kind |-> "withdraw", to |-> "u2", denom |-> D1, amt |-> 3] >>),
           HookMsgs("u1", << [kind |-> "withdraw", to |-> "u2", denom |-> N1, amt |-> 1] >>) }
(* hooks signed by an executor that deliver another deposit from inside the hook: the deposit being processed again      *)
(* (a no-op: its sequence is already consumed), the next sequence (processed on the branch), a sequence ahead (rejected, *)
(* the hook fails), by a non-executor, to a blocked recipient (refund inside the hook), followed by a failing message.    *)
DpM(seq, from, to, denom, amt, base) == [kind |-> "deposit", seq |-> seq, from |-> from, to |-> to, denom |-> denom, amt |-> amt, base |-> base, height |-> 5]
HooksN(q) == { HookMsgs("e2", << DpM(q, "u2", "u1", D1, 2, "d1") >>),
               HookMsgs("e2", << DpM(q + 1, "u2", "u3", D1, 1, "d1") >>),
               HookMsgs("e2", << DpM(q + 2, "u2", "u3", D1, 1, "d1") >>),
               HookMsgs("u1", << DpM(q + 1, "u2", "u3", D1, 1, "d1") >>),
               HookMsgs("e2", << DpM(q + 1, "u2", "opchild", D1, 1, "d1") >>),
               HookMsgs("e2", << DpM(q + 1, "u2", "u3", D1, 1, "d1"), [kind |-> "send", to |-> "panic", denom |-> D1, amt |-> 1] >>),
               HookMsgs("e2", << DpM(q + 1, "u2", "u3", D1, 1, "d1"), DpM(q + 1, "u2", "u3", D1, 1, "d1"), DpM(q + 2, "u1", "u3", D2, 1, "d2") >>),
               \* the deposit delivered by the hook carries a hook of its own (a hook inside a hook)
               HookMsgs("e2", << [DpM(q + 1, "u2", "u1", D1, 2, "d1") EXCEPT !.kind = "deposit"] @@ [hook |-> HookMsgs("u1", << [kind |-> "send", to |-> "u3", denom |-> D1, amt |-> 1] >>)] >>) }
Queries == {[type |-> "Query", q |-> q, denom |-> ""] : q \in {"NextL1Sequence", "NextL2Sequence", "BridgeInfo", "Params"}}
           \cup {[type |-> "Query", q |-> "BaseDenom", denom |-> d] : d \in {D1, D2, N1}}
Faults == {"none", "mintErr", "mintPanic", "sendErr", "sendPanic"}
DepositEvents(s) ==
  LET q == s.seqL1 IN
  (IF q <= 2 THEN
     {Dep("e1", q, "u2", to, D1, amt, "d1", h, "none") : to \in {"u1", "bad:notbech32", "opchild"}, amt \in {0, 2}, h \in Hooks}
     \cup {Dep("e1", q, "u2", "u1", D1, amt, "d1", h, f) : amt \in {0, 2}, h \in {NoHook, HookMsgs("u1", << [kind |-> "send", to |-> "u3", denom |-> D1, amt |-> 1] >>)}, f \in Faults}
     \cup {Dep("e1", q, "u2", "u1", D1, 2, "d1", h, "none") : h \in HooksN(q)}
     \cup {Dep("e1", q, "u2", "u1", D1, 0, "d1", HookMsgs("e2", << DpM(q + 1, "u2", "u3", D1, 1, "d1") >>), "mintErr")}
     \cup {Dep("e1", q, "u2", to, D2, 1, "d2", NoHook, "none") : to \in {"u1", "opchild"}}      \* first deposits (credited / refunded) of the denom with earlier metadata
     \cup {Dep("e1", q, "bad:empty", "u1", D1, 1, "d1", NoHook, "none"), Dep("e1", q, "u2", "u1", "bad:denom", 1, "d1", NoHook, "none"),
           Dep("e1", q, "u2", "u1", D1, 1, "bad:denom", NoHook, "none"), Dep("e1", q, "u2", "u1", D1, 1, "d2", NoHook, "none"),
           Dep("e1", q, "u2", "opchild", D1, 1, "d2", NoHook, "none"), Dep("e1", q, "u2", "bad:notbech32", D1, 0, "d2", NoHook, "none"),
           Dep("e1", q, "u2", "u1", D1, 2, "d2", HookMsgs("u1", << [kind |-> "send", to |-> "u3", denom |-> D1, amt |-> 3] >>), "none")}
   ELSE {})
  \cup {Wd(a, "u2", d, n) : a \in {"u1", "u3"}, d \in {D1, N1, D2}, n \in {0, 1, 3}}
  \cup {Wd("u1", "u2", D1, 4)}           \* 4 units = 2^64: the L1 could never pay it
  \cup {Wd("u1", "bad:empty", D1, 1), Wd("u1", "u2", "bad:denom", 1)}
  \cup (IF s.params.hookGas = "ample" /\ q = 1 THEN {Upd("opchild", [s.params EXCEPT !.hookGas = g]) : g \in {"tiny", "zero"}} ELSE {})
  \cup {Send("u1", "u3", D1, 1)}
  \cup {[type |-> "ExportImport"]}
  \cup Queries
  \cup {[type |-> "ExecuteMessages", signer |-> "adm", msgs |-> << Wd("u1", "u2", D1, 1) >>]}     \* the admin batches a withdrawal in a holder's name: only the holder's own signature moves its tokens

Signers == {"opchild", "adm", "e1", "e2", "x"}
Info(id, addr, chain, client) == [id |-> id, addr |-> addr, chain |-> chain, client |-> client, oracle |-> FALSE, cfgOK |-> TRUE]
AuthEvents(s) ==
  {Dep(a, s.seqL1, "u2", "u1", D1, 1, "d1", NoHook, "none") : a \in Signers \cap (IF s.seqL1 <= 2 THEN Signers ELSE {})}
  \cup {[type |-> "SetBridgeInfo", signer |-> a, info |-> i] : a \in Signers,
          i \in {Info(1, "A", "L1", ""), Info(1, "A", "L1", "c1"), Info(2, "A", "L1", "c1"), Info(1, "B", "L1", "c1"), Info(1, "A", "L2", "c1"), Info(1, "A", "L1", "c2"),
                 [Info(1, "A", "L1", "c1") EXCEPT !.cfgOK = FALSE], Info(0, "A", "L1", "c1"), Info(1, "", "L1", "c1")}}
  \cup {Upd(a, p) : a \in Signers, p \in {[s.params EXCEPT !.execs = <<"e2">>], [s.params EXCEPT !.execs = <<"up:e2">>], [s.params EXCEPT !.admin = "x"], [s.params EXCEPT !.maxVals = 0],
                           [s.params EXCEPT !.fw = <<"u1", "bad:notbech32">>], [s.params EXCEPT !.fw = <<"u1", "bad:empty">>], [s.params EXCEPT !.execs = <<"e1", "bad:notbech32">>], [s.params EXCEPT !.admin = "bad:empty"]}}
  \cup {[type |-> "SpendFeePool", signer |-> a, to |-> "u3", denom |-> N1, amt |-> 1] : a \in Signers}
  \cup {[type |-> "ExecuteMessages", signer |-> a, msgs |-> ms] : a \in Signers,
          ms \in { << [type |-> "SpendFeePool", signer |-> "opchild", to |-> "u3", denom |-> N1, amt |-> 1] >>,
                   << [type |-> "SpendFeePool", signer |-> "opchild", to |-> "u3", denom |-> N1, amt |-> 1], Send("u1", "u3", N1, 1) >>,
                   << [type |-> "SpendFeePool", signer |-> "opchild", to |-> "u3", denom |-> N1, amt |-> 1], [type |-> "SpendFeePool", signer |-> "opchild", to |-> "u3", denom |-> N1, amt |-> 5] >>,
                   << Upd("opchild", [s.params EXCEPT !.admin = "x"]) >>,
                   << Upd("adm", [s.params EXCEPT !.admin = "x"]) >>,
                   \* messages of this module that do not check an authority themselves, named after a user / an executor: the batch is for the module account's own messages only
                   << Send("opchild", "u3", N1, 1), Send("u1", "u3", N1, 1) >>,     \* two messages of one type: every one of them needs the authority as signer
                   << Wd("u1", "u2", D1, 1) >>,
                   << Dep("e1", s.seqL1, "u2", "u1", D1, 1, "d1", NoHook, "none") >>,
                   << >> }}
  \cup Queries

Events(s) ==
  CASE Fam = "relay"   -> RelayEvents(s)
    [] Fam = "deposit" -> DepositEvents(s)
    [] Fam = "auth"    -> AuthEvents(s)

PreMeta == IF Fam = "deposit" THEN {D2} ELSE {}     \* a bridged denom whose bank metadata exists before its first deposit
S0 == InitState(Accts, Denoms, {N1} \cup PreMeta, Funded, Params0, 3, Devs)

ASSUME PrintT("META " \o ToJson([accts |-> Accts, denoms |-> Denoms, funded |-> Funded, params |-> Params0, devs |-> Devs, premeta |-> PreMeta]))

Init == /\ st = S0
        /\ last = [e |-> [type |-> "Init"], ok |-> TRUE, resp |-> NoResp, failed |-> {}]
Next == \E e \in Events(st) :
          LET r == Step(st, e) IN
            /\ st' = r.st
            /\ last' = [e |-> e, ok |-> r.ok, resp |-> r.resp, failed |-> r.failed]
Spec == Init /\ [][Next]_vars
View == st
Emit ==
  \/ ~last'.ok /\ Cardinality(last'.failed) > FailCap /\ TLCGet("level") % 5 # 0
  \/ PrintT("EDGE " \o ToJson([from |-> st, e |-> last'.e, ok |-> last'.ok, resp |-> last'.resp,
                                failed |-> last'.failed, to |-> IF last'.ok THEN st' ELSE [same |-> TRUE]]))

----------------------------------------------------------------------------
(* Properties *)
IsOK(o, ty) == o.ok /\ o.e.type = ty
IsDeposit(o) == IsOK(o, "FinalizeTokenDeposit")
Processed(o) == IsDeposit(o) /\ o.resp.result = "SUCCESS"

(* C06 *)
DepEvs(o) == IF Processed(o) THEN o.resp.depEvs ELSE << >>      \* every deposit the step announces as processed (its own last; deposits delivered by its hook before it)
InOrderOnce(s, o, t) ==
  /\ Processed(o) => o.e.seq = s.seqL1
  /\ t.seqL1 = s.seqL1 + Len(DepEvs(o))
  /\ \A q \in s.seqL1..(t.seqL1 - 1) : Cardinality({i \in 1..Len(DepEvs(o)) : DepEvs(o)[i].seq = q}) = 1     \* each consumed sequence announced exactly once
NoopIsNoop(s, o, t) == (IsDeposit(o) /\ o.resp.result = "NOOP") => (t = s /\ o.e.seq < s.seqL1)
AheadRejected(s, o, t) == (o.e.type = "FinalizeTokenDeposit" /\ o.e.seq > s.seqL1) => ~o.ok
OnlyExecutors(s, o, t) == IsDeposit(o) => IsExecutor(s, o.e.signer)

(* C07 *)
SumBal(s, d) == LET RECURSIVE Sum(_) Sum(T) == IF T = {} THEN 0 ELSE LET x == CHOOSE y \in T : TRUE IN s.bal[x][d] + Sum(T \ {x}) IN Sum(DOMAIN s.bal)
RECURSIVE SumSeq(_, _)
SumSeq(q, i) == IF i > Len(q) THEN 0 ELSE q[i] + SumSeq(q, i + 1)
HookWithdrawn(o, d) == SumSeq([i \in 1..Len(o.resp.hookWds) |-> IF o.resp.hookWds[i].denom = d THEN o.resp.hookWds[i].amt ELSE 0], 1)
Outcome(s, o, t) ==
  Processed(o) =>
    LET e == o.e credited == o.resp.ev.success IN
    IF credited
    THEN /\ ~o.resp.wd.some /\ t.seqL2 = s.seqL2 + Len(o.resp.hookWds)
         /\ (e.hook.kind = "none" => t.bal = Credit(s.bal, e.to, e.denom, e.amt))
    ELSE /\ t.supply = s.supply /\ t.bal = s.bal /\ o.resp.hookWds = << >> /\ Len(o.resp.depEvs) = 1
         /\ o.resp.wd.some /\ o.resp.wd.seq = s.seqL2 /\ t.seqL2 = s.seqL2 + 1
         /\ o.resp.wd.from = e.to /\ o.resp.wd.to = e.from /\ o.resp.wd.amt = e.amt /\ o.resp.wd.denom = e.denom
DepositNeverStalls(s, o, t) ==
  \* at the expected sequence, by an executor, with well-formed fields: the handler succeeds whatever the recipient, hook or fault
  (o.e.type = "FinalizeTokenDeposit" /\ o.e.seq = s.seqL1 /\ IsExecutor(s, o.e.signer) /\ "valid" \notin o.failed /\ "inGrid" \notin o.failed) => o.ok
HookContained(s, o, t) ==
  (Processed(o) /\ ~o.resp.ev.success) =>
     \A a \in DOMAIN s.acctSeq : t.acctSeq[a] # s.acctSeq[a] => (o.e.hook.kind = "msgs" /\ a = o.e.hook.signer)
SupplyMatchesBalances(s) == \A d \in DOMAIN s.supply : s.supply[d] = SumBal(s, d)

(* C09 *)
WithdrawExact(s, o, t) ==
  IsOK(o, "InitiateTokenWithdrawal") =>
    LET e == o.e IN
      /\ t.bal = Debit(s.bal, e.signer, e.denom, e.amt) /\ t.supply[e.denom] = s.supply[e.denom] - e.amt
      /\ o.resp.seq = s.seqL2 /\ t.seqL2 = s.seqL2 + 1
      /\ Has(s.pairs, e.denom) /\ o.resp.ev.base = s.pairs[e.denom] /\ o.resp.ev.amt = e.amt /\ o.resp.ev.from = e.signer /\ o.resp.ev.to = e.to
      /\ e.amt > 0 /\ s.bal[e.signer][e.denom] >= e.amt
PairImmutable(s, o, t) == \A d \in DOMAIN s.pairs : Has(t.pairs, d) /\ t.pairs[d] = s.pairs[d]
(* the withdrawals a step announces (user withdrawal, refund, withdrawals made by a deposit hook), in order *)
Announced(o) ==
  IF IsOK(o, "InitiateTokenWithdrawal") THEN << o.resp.ev >>
  ELSE IF Processed(o) THEN o.resp.hookWds \o (IF o.resp.wd.some THEN << o.resp.wd >> ELSE << >>)
  ELSE << >>
SeqL2OnlyByWithdrawals(s, o, t) ==
  \* gap-free shared sequence: the step consumes exactly the sequences s.seqL2 .. of the withdrawals it announces
  /\ t.seqL2 = s.seqL2 + Len(Announced(o))
  /\ \A i \in 1..Len(Announced(o)) : Announced(o)[i].seq = s.seqL2 + i - 1
DepSum(o, d, succ) == SumSeq([i \in 1..Len(DepEvs(o)) |-> IF DepEvs(o)[i].denom = d /\ DepEvs(o)[i].success = succ THEN DepEvs(o)[i].amt ELSE 0], 1)
WdSum(o, d) == SumSeq([i \in 1..Len(Announced(o)) |-> IF Announced(o)[i].denom = d THEN Announced(o)[i].amt ELSE 0], 1)
BridgedSupplyDelta(s, o, t) ==
  \* supply = credited deposits - recorded withdrawals, where every deposit that was not credited is matched by exactly one refund withdrawal of its amount
  \A d \in {D1, D2} : t.supply[d] - s.supply[d] = DepSum(o, d, TRUE) - (WdSum(o, d) - DepSum(o, d, FALSE))
NoEffectOnReject(s, o, t) == ~o.ok => t = s

(* C12 (L2 part) *)
Allowed(s, e) ==
  CASE e.type \in {"FinalizeTokenDeposit", "SetBridgeInfo"} -> IsExecutor(s, e.signer)
    [] e.type \in {"UpdateParams", "SpendFeePool"} -> e.signer = Authority
    [] e.type = "ExecuteMessages" -> e.signer = s.params.admin /\ \A i \in 1..Len(e.msgs) : e.msgs[i].signer = Authority
    [] OTHER -> TRUE
AuthOnlyIf(s, o, t) == o.ok => Allowed(s, o.e)
BindingImmutable(s, o, t) ==
  s.bridgeInfo.set =>
    /\ t.bridgeInfo.set /\ t.bridgeInfo.id = s.bridgeInfo.id /\ t.bridgeInfo.addr = s.bridgeInfo.addr /\ t.bridgeInfo.chain = s.bridgeInfo.chain
    /\ (s.bridgeInfo.client # "" => t.bridgeInfo.client = s.bridgeInfo.client)
ExecAllOrNothing(s, o, t) == (o.e.type = "ExecuteMessages" /\ ~o.ok) => t = s

NextOutcome == [e |-> last'.e, ok |-> last'.ok, resp |-> last'.resp, failed |-> last'.failed]
Inv_Supply == SupplyMatchesBalances(st)
P_Relay   == [][InOrderOnce(st, NextOutcome, st') /\ NoopIsNoop(st, NextOutcome, st') /\ AheadRejected(st, NextOutcome, st') /\ OnlyExecutors(st, NextOutcome, st')]_vars
P_Deposit == [][Outcome(st, NextOutcome, st') /\ DepositNeverStalls(st, NextOutcome, st') /\ HookContained(st, NextOutcome, st')]_vars
P_Withdraw == [][WithdrawExact(st, NextOutcome, st') /\ PairImmutable(st, NextOutcome, st') /\ SeqL2OnlyByWithdrawals(st, NextOutcome, st') /\ BridgedSupplyDelta(st, NextOutcome, st')]_vars
P_NoEffectOnReject == [][NoEffectOnReject(st, NextOutcome, st')]_vars
P_Auth == [][AuthOnlyIf(st, NextOutcome, st') /\ BindingImmutable(st, NextOutcome, st') /\ ExecAllOrNothing(st, NextOutcome, st')]_vars
=============================================================================
