------------------------------- MODULE Formats -------------------------------
(***************************************************************************)
(* The published commitment and identifier formats of OPinit, written once *)
(* as a term algebra.  A term is a JSON-closed record; `Hole(name, kind)`   *)
(* stands for an input value.  The generic evaluator of the harness knows   *)
(* only the primitives (be64, str, byte, lit, cat, sha3, sha256, hex,       *)
(* sortpair) -- nothing about OPinit -- and fills holes with seeded values; *)
(* the bytes it computes are compared with the chain's own functions        *)
(* (x/ophost/types/output.go, denom.go, auth.go).                           *)
(***************************************************************************)
EXTENDS Integers, Sequences

Hole(name, kind) == [op |-> "hole", name |-> name, kind |-> kind]   \* kind: u64 | str | b32 | byte
BE64(t)   == [op |-> "be64", x |-> t]      \* 8-byte big-endian encoding of an unsigned 64-bit integer
Str(t)    == [op |-> "str", x |-> t]       \* the UTF-8 bytes of a string
Byte(t)   == [op |-> "byte", x |-> t]      \* one byte
Lit(s)    == [op |-> "lit", s |-> s]       \* the ASCII bytes of a literal
Cat(ts)   == [op |-> "cat", xs |-> ts]     \* concatenation
SHA3(t)   == [op |-> "sha3", x |-> t]      \* SHA3-256
SHA256(t) == [op |-> "sha256", x |-> t]
Hex(t)    == [op |-> "hex", x |-> t]       \* lower-case hexadecimal text
SortedPair(a, b) == [op |-> "sortpair", a |-> a, b |-> b]   \* min(a,b) || max(a,b) in byte-wise lexicographic order

(* withdrawal leaf: fixed-width integers, per-string digests, double hash *)
Leaf(bridge, seq, from, to, denom, amt) ==
  SHA3(SHA3(Cat(<< BE64(bridge), BE64(seq), SHA3(Str(from)), SHA3(Str(to)), SHA3(Str(denom)), BE64(amt) >>)))

(* inner node: order independent *)
Node(a, b) == SHA3(SortedPair(a, b))

RECURSIVE RootFromProof(_, _)
RootFromProof(leaf, proof) == IF proof = << >> THEN leaf ELSE RootFromProof(Node(leaf, Head(proof)), Tail(proof))

OutputRoot(version, storageRoot, blockHash) == SHA3(Cat(<< Byte(version), storageRoot, blockHash >>))

L2Denom(bridge, l1Denom) == Cat(<< Lit("l2/"), Hex(SHA3(Cat(<< BE64(bridge), Str(l1Denom) >>))) >>)

(* escrow account of a bridge: ADR-028 module-derived address with the 8-byte id as derivation key *)
BridgeAddr(bridge) == SHA256(Cat(<< SHA256(Lit("module")), Lit("ophost"), Byte(0), BE64(bridge) >>))

(* the published tree rule: leaves in order, neighbours paired level by level, an odd last node paired with itself *)
RECURSIVE Level(_)
Level(xs) ==
  IF Len(xs) = 0 THEN << >>
  ELSE IF Len(xs) = 1 THEN << Node(xs[1], xs[1]) >>
  ELSE << Node(xs[1], xs[2]) >> \o Level(SubSeq(xs, 3, Len(xs)))
RECURSIVE TreeRoot(_)
TreeRoot(xs) == IF Len(xs) = 1 THEN xs[1] ELSE TreeRoot(Level(xs))
RECURSIVE ProofFor(_, _)
ProofFor(xs, i) ==      \* i in 1..Len(xs)
  IF Len(xs) = 1 THEN << >>
  ELSE LET sib == IF i % 2 = 1 THEN (IF i + 1 <= Len(xs) THEN i + 1 ELSE i) ELSE i - 1
       IN << xs[sib] >> \o ProofFor(Level(xs), (i + 1) \div 2)
=============================================================================
