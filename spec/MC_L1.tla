------------------------------- MODULE MC_L1 -------------------------------
(***************************************************************************)
(* Bounded instances of L1Host for exhaustive checking with TLC (engine E1) *)
(* and for emitting every transition of the bounded model as JSON so that   *)
(* it can be replayed on the real ophost keeper (engine E2).                *)
(*                                                                         *)
(* One module, several families selected by CONSTANT Fam; each family       *)
(* chooses the event alphabet relevant to a group of properties:            *)
(*   "oracle" : C05 C11 (propose / delete / finalize / time / roles)        *)
(*   "ledger" : C01 C10 C16 (bridges, deposits, claims, sends, export)      *)
(*   "claims" : C02 C03 (overlapping trees, perturbed claims)               *)
(*   "auth"   : C12 (every permissioned message x every signer x rotations) *)
(*   "perm"   : C19 (metadata classes x channel states)                     *)
(***************************************************************************)
EXTENDS L1Host, Json

CONSTANTS Fam,        \* family name
          Tier,       \* "quick" | "thorough"
          Devs,       \* set of enabled deviations
          FailCap     \* emit failing transitions with at most this many false guards

VARIABLES st, last
vars == <<st, last>>

Thorough == Tier = "thorough"

----------------------------------------------------------------------------
(* value universes                                                          *)
Accts  == {"gov", "p1", "p2", "c1", "c2", "u1", "u2", "x", "esc1", "esc2", "esc3", "pool"}
Denoms == {"d1", "d2"}
BKeys  == {"1", "2", "3"}
Chans  == {"ch1", "ch2"}

MetaNone == [cls |-> "none", chs |-> << >>]
Cfg(p, c, period, meta) ==
  [proposer |-> p, challenger |-> c, period |-> period, interval |-> 2, startH |-> 1,
   oracle |-> FALSE, meta |-> meta, bsub |-> "s1", bchain |-> "INITIA"]

W1 == [seq |-> 1, from |-> "u2", to |-> "u1", denom |-> "d1", amt |-> 1]
W2 == [seq |-> 2, from |-> "u1", to |-> "u2", denom |-> "d1", amt |-> 2]
W3 == [seq |-> 3, from |-> "u2", to |-> "u1", denom |-> "d2", amt |-> 1]
WBig == [seq |-> 4, from |-> "u2", to |-> "u1", denom |-> "d1", amt |-> 4]     \* over the 64-bit cap (cap = 3 units; 4 units = 2^64)
L(b, w) == [b |-> b, seq |-> w.seq, from |-> w.from, to |-> w.to, denom |-> w.denom, amt |-> w.amt]

WN(i) == [seq |-> i, from |-> IF i % 3 = 0 THEN "up:u2" ELSE "u2", to |-> IF i % 5 = 0 THEN "pool" ELSE IF i % 2 = 0 THEN "up:u1" ELSE "u1", denom |-> "d1", amt |-> 1]   \* every fifth recipient is a module account (the community pool)
TreeN(n) == [i \in 1..n |-> L(1, WN(i))]
MaxTreeN == IF Tier = "thorough" THEN 16 ELSE 8
NName(n) == "N" \o ToString(n)
BaseTrees == [ T1 |-> << L(1, W1) >>,
           T2 |-> << L(1, W1), L(1, W2) >>,
           T3 |-> << L(1, W2), L(1, W1), L(1, W3) >>,
           T4 |-> << L(2, W1) >>,
           TJ |-> << >> ]          \* junk: a root that commits to nothing known
Trees == [t \in (DOMAIN BaseTrees) \cup {NName(n) : n \in 1..MaxTreeN} |->
            IF t \in DOMAIN BaseTrees THEN BaseTrees[t] ELSE TreeN(CHOOSE n \in 1..MaxTreeN : NName(n) = t)]
Root(v, t, h) == [v |-> v, t |-> t, h |-> h]

(* a claim of withdrawal w against output index out of bridge b, built from  *)
(* tree t / position pos / block hash h / version v, then mutated by mut     *)
ProofMuts == {"none", "flip", "drop", "dup", "ext", "zeroext", "zeropre"}     \* zeroext / zeropre: an all-zero 32-byte element appended / prepended
LeafEq(b, w, l) == l = L(b, w)
Claim(signer, b, out, w, v, t, pos, h, mut) ==
  [type |-> "FinalizeTokenWithdrawal", signer |-> signer, b |-> b, out |-> out, w |-> w,
   v |-> v, tree |-> [id |-> t, leaves |-> Trees[t]], pos |-> pos, h |-> h, mut |-> mut,
   bad |-> IF mut = "len31" THEN "prooflen" ELSE "none",
   root |-> Root(v, t, h),
   proofOK |-> mut = "none" /\ pos \in 1..Len(Trees[t]) /\ LeafEq(b, w, Trees[t][pos]) ]

----------------------------------------------------------------------------
(* event alphabets                                                          *)
Advance(s, maxNow, dts) == {[type |-> "AdvanceBlock", dt |-> dt] : dt \in {d \in dts : s.now + d <= maxNow /\ s.h < maxNow + 1}}
Creates(s, creators, cfgs) ==
  IF s.nextB > s.maxB THEN {} ELSE {[type |-> "CreateBridge", signer |-> c, cfg |-> g] : c \in creators, g \in cfgs}
Proposes(signers, bs, idxs, l2bns, roots) ==
  {[type |-> "ProposeOutput", signer |-> a, b |-> b, idx |-> i, l2bn |-> n, root |-> r, bad |-> "none"] :
     a \in signers, b \in bs, i \in idxs, n \in l2bns, r \in roots}
Deletes(signers, bs, idxs) ==
  {[type |-> "DeleteOutput", signer |-> a, b |-> b, idx |-> i] : a \in signers, b \in bs, i \in idxs}
Deposits(signers, bs, tos, denoms, amts, datas) ==
  {[type |-> "InitiateTokenDeposit", signer |-> a, b |-> b, to |-> t, denom |-> d, amt |-> n, data |-> p] :
     a \in signers, b \in bs, t \in tos, d \in denoms, n \in amts, p \in datas}
Sends(froms, tos, denoms, amts) ==
  {[type |-> "BankSend", signer |-> a, to |-> t, denom |-> d, amt |-> n] :
     a \in froms, t \in tos, d \in denoms, n \in amts}
UpdProposer(signers, bs, news) ==
  {[type |-> "UpdateProposer", signer |-> a, b |-> b, new |-> n] : a \in signers, b \in bs, n \in news}
UpdChallenger(signers, bs, news) ==
  {[type |-> "UpdateChallenger", signer |-> a, b |-> b, new |-> n] : a \in signers, b \in bs, n \in news}
UpdBatch(signers, bs) ==
  {[type |-> "UpdateBatchInfo", signer |-> a, b |-> b, bsub |-> "s2", bchain |-> "CELESTIA"] : a \in signers, b \in bs}
UpdOracle(signers, bs) ==
  {[type |-> "UpdateOracleConfig", signer |-> a, b |-> b, flag |-> TRUE] : a \in signers, b \in bs}
UpdMeta(signers, bs, metas) ==
  {[type |-> "UpdateMetadata", signer |-> a, b |-> b, meta |-> m] : a \in signers, b \in bs, m \in metas}
UpdParams(signers, fees) ==
  {[type |-> "UpdateParams", signer |-> a, fee |-> f] : a \in signers, f \in fees}
RecBatch(signers, bs) ==
  {[type |-> "RecordBatch", signer |-> a, b |-> b, bad |-> "none"] : a \in signers, b \in bs}
ExpImp == {[type |-> "ExportImport"]}
Qry(q, b, idx, denom, w, offset, limit, reverse) == [type |-> "Query", q |-> q, b |-> b, idx |-> idx, denom |-> denom, w |-> w, offset |-> offset, limit |-> limit, reverse |-> reverse]
(* every gRPC query once (paginated ones with two page shapes); offered where genesis round trips are offered, so that the *)
(* walker also asks them on the re-imported chain                                                                           *)
Queries(bs, w) ==
  UNION {{Qry("NextL1Sequence", b, 0, "d1", w, 0, 0, FALSE), Qry("LastFinalizedOutput", b, 0, "d1", w, 0, 0, FALSE), Qry("OutputProposals", b, 0, "d1", w, 1, 1, TRUE),
          Qry("BatchInfos", b, 0, "d1", w, 0, 0, FALSE), Qry("TokenPairs", b, 0, "d1", w, 0, 0, FALSE), Qry("Claimed", b, 0, "d1", w, 0, 0, FALSE)}
         \cup (IF Thorough
               THEN {Qry("Bridge", b, 0, "d1", w, 0, 0, FALSE), Qry("OutputProposal", b, 1, "d1", w, 0, 0, FALSE), Qry("OutputProposals", b, 0, "d1", w, 0, 0, FALSE),
                     Qry("TokenPairByL1Denom", b, 0, "d1", w, 0, 0, FALSE), Qry("TokenPairByL2Denom", b, 0, "d1", w, 0, 0, FALSE), Qry("TokenPairByL2Denom", b, 0, "d2", w, 0, 0, FALSE),
                     Qry("TokenPairs", b, 0, "d1", w, 1, 1, FALSE)}
               ELSE {}) : b \in bs}
  \cup {Qry("Bridges", 1, 0, "d1", w, 1, 1, TRUE), Qry("Params", 1, 0, "d1", w, 0, 0, FALSE)}
  \cup (IF Thorough THEN {Qry("Bridges", 1, 0, "d1", w, 0, 0, FALSE)} ELSE {})

OracleEvents(s) ==
  LET periods == IF Thorough THEN {-4, -1, 0, 1, 2, 3} ELSE {-1, 0, 2}
      roots == {Root(0, "T1", "h1"), Root(0, "TJ", "h1")} IN
  \* thorough bounds are fitted to measured state counts: six periods and five ticks give 5*10^4 states / 5*10^6 transitions; seven ticks, three
  \* block numbers and a second bridge did not finish (2*10^6 states after 20 minutes)
  Advance(s, IF Thorough THEN 5 ELSE 4, {0, 1, 2})
  \cup Creates(s, {"u1"}, {Cfg("p1", "c1", p, MetaNone) : p \in periods})
  \cup Proposes({"p1", "x"}, {1, 2}, 0..3, 1..2, roots)
  \cup Deletes({"gov", "p1", "c1", "x"}, {1, 2}, 0..3)
  \* a relayer re-broadcasts the proposal that was just accepted (same index, block number and root), however many guards that fails
  \cup (IF s.nextOut["1"] >= 2 /\ Has(s.outs["1"], K(s.nextOut["1"] - 1))
        THEN LET o == s.outs["1"][K(s.nextOut["1"] - 1)] IN
             {[always |-> TRUE] @@ x : x \in Proposes({"p1"}, {1}, {s.nextOut["1"] - 1}, {o.l2bn}, {o.root})}
        ELSE {})
  \cup (IF s.l1seq["1"] <= 2 THEN Deposits({"u1"}, {1}, {"u2"}, {"d1"}, {1}, {"p0"}) ELSE {})
  \cup {Claim("x", 1, o, W1, 0, "T1", 1, "h1", "none") : o \in 1..2}

SeqBelow(s, b, n) == s.l1seq[K(b)] <= n
LedgerEvents(s) ==
  Advance(s, 3, {3})
  \cup Creates(s, {"u1", "x"}, {Cfg("p1", "c1", 2, MetaNone)})
  \cup UNION {Deposits({"u1"}, {b}, {"u2"}, {"d1"}, IF b = 1 \/ Thorough THEN {0, 2} ELSE {2}, {"p1"}) : b \in {b \in {1, 2, 3} : SeqBelow(s, b, 2)}}
  \cup (IF SeqBelow(s, 1, 2) THEN Deposits({"u2"}, {1}, {"u1"}, {"d2"}, {1}, {"p0"}) ELSE {})
  \cup Deposits({"bad:notbech32"}, {1}, {"u2"}, {"d1"}, {1}, {"p0"})
  \cup Deposits({"u1"}, {0, 1}, {"bad:empty", "u2"}, {"d1", "bad:denom"}, {3}, {"p0"})
  \cup Deposits({"u1"}, {1}, {"u2"}, {"d1"}, {4}, {"p0"})                      \* 4 units = 2^64: does not fit 64 bits
  \cup Deposits({"u1"}, {1}, {"bad:empty"}, {"d1"}, {3}, {"p1"})                \* no recipient, but a payload
  \cup Deposits({"u1"}, {1}, {"u2"}, {"bad:denom"}, {0}, {"p0"})               \* nothing to escrow, so only the message's own validation looks at the denom
  \cup (IF Thorough THEN Deposits({"u1"}, {1, 2}, {"u2"}, {"d1"}, {3, 5}, {"p0"}) ELSE {})
  \cup UNION {Proposes({"p1"}, {b}, {1}, {1}, {Root(0, "T2", "h1")}) : b \in {b \in {1, 2} : s.nextOut[K(b)] <= (IF Thorough THEN 2 ELSE 1)}}
  \cup Deletes({"c1"}, {1, 2}, {1})
  \cup {Claim("x", b, 1, w, 0, "T2", pos, "h1", "none") : b \in {1, 2}, w \in {W1, W2}, pos \in {1, 2}}
  \cup (IF s.bal["u1"]["d1"] >= 7 THEN Sends({"u1"}, {"esc1", "esc2"}, {"d1"}, {1}) ELSE {})
  \cup (IF s.nextB <= s.maxB /\ (Thorough \/ s.fee = 0) THEN UpdParams({"gov"}, {0, 1} \ {s.fee}) ELSE {})
  \cup (IF Thorough \/ s.now = 3 THEN ExpImp ELSE {})
  \cup (IF s.now = 3 /\ s.nextB > 1 THEN Queries(IF Thorough THEN {1, 2} ELSE {1}, W1) ELSE {})

WVariants == {W1, [W1 EXCEPT !.denom = "l2/1/d1"], [W1 EXCEPT !.from = "up:u2"], [W1 EXCEPT !.amt = 2], [W1 EXCEPT !.to = "u2"], [W1 EXCEPT !.from = "u1", !.to = "u2"], [W1 EXCEPT !.seq = 2], [W1 EXCEPT !.denom = "d2"]}
BadPos == {c \in {Claim("x", b, o, w, 0, t, pos, "h1", "none") : b \in {1, 2}, o \in 1..3, w \in {W1, W2, W3}, t \in {"T1", "T2", "T3"}, pos \in 1..3} : c.pos > Len(c.tree.leaves)}
          \cup {c \in {Claim("u1", 1, o, w, v, t, pos, h, m) : o \in 1..2, w \in WVariants, v \in {0, 1}, t \in {"T1"}, pos \in {2}, h \in {"h1", "h2"}, m \in ProofMuts \cup {"len31"}} : TRUE}
InTree(S) == {c \in S : c.pos <= Len(c.tree.leaves)}     \* the harness builds proofs for existing positions only
ClaimEvents(s) ==
  LET roots == {Root(0, "T1", "h1"), Root(0, "T2", "h1"), Root(0, "T3", "h1")}
      muts  == IF Thorough THEN ProofMuts \cup {"len31"} ELSE {"none", "flip", "drop", "ext", "zeroext", "zeropre"}
      n     == s.nextOut["1"] IN
  Advance(s, 4, {4})
  \cup Creates(s, {"u1"}, {Cfg("p1", "c1", 2, MetaNone)})
  \cup (IF SeqBelow(s, 1, 2) THEN Deposits({"u1"}, {1}, {"u2"}, {"d1", "d2"}, {3}, {"p0"}) ELSE {})
  \cup (IF SeqBelow(s, 2, 1) THEN Deposits({"u1"}, {2}, {"u2"}, {"d1"}, {3}, {"p0"}) ELSE {})      \* funds the second bridge's escrow
  \cup (IF n <= 3 THEN Proposes({"p1"}, {1}, {n}, {n}, roots) ELSE {})
  \cup (IF n = 2 THEN Proposes({"p1"}, {1}, {n}, {n}, {Root(0, "T4", "h1")}) ELSE {})               \* bridge 1 commits to a tree whose leaf names bridge 2
  \cup {[always |-> TRUE] @@ Claim("x", b, o, W1, 0, "T4", 1, "h1", "none") : b \in {1, 2}, o \in 1..3}   \* emitted however many guards fail
  \cup (IF s.now = 4 THEN ExpImp ELSE {})                                                             \* outputs must stay with their bridge across a genesis round trip
  \cup Deletes({"c1"}, {1}, 1..2)
  \cup ({Claim("x", b, o, w, 0, t, pos, "h1", "none") :
          b \in {1, 2}, o \in 1..3, w \in {W1, W2, W3}, t \in {"T1", "T2", "T3"}, pos \in 1..3} \ BadPos)
  \cup (IF Thorough
        THEN \* two dimensions at a time around the valid claim (the full product - 1344 claims per state, 9*10^6 transitions - was measured and is
             \* beyond what E2 replays in the time allowed; FailCap = 2 already emits every pair of failing guards)
             InTree({Claim("u1", 1, o, w, 0, "T2", 1, "h1", m) : o \in 1..3, w \in WVariants, m \in muts}
              \cup {Claim("u1", 1, o, w, v, "T2", 1, h, "none") : o \in 1..3, w \in WVariants, v \in {0, 1}, h \in {"h1", "h2"}}
              \cup {Claim("u1", 1, o, W1, v, "T2", 1, h, m) : o \in 1..3, v \in {0, 1}, h \in {"h1", "h2"}, m \in muts}
              \cup {Claim("u1", 1, o, w, 0, t, pos, "h1", "none") : o \in 1..3, w \in WVariants, t \in {"T1", "T2", "T3"}, pos \in 1..3}
              \cup {Claim("u1", 1, o, W1, 0, t, pos, "h1", m) : o \in 1..3, t \in {"T1", "T2", "T3"}, pos \in 1..3, m \in muts}
              \cup {[always |-> TRUE] @@ Claim("u1", 1, o, [W1 EXCEPT !.amt = 5], 0, "T2", 1, "h1", "none") : o \in 1..3}
              \cup {[Claim("u1", 1, o, W1, 0, "T2", 1, "h1", "none") EXCEPT !.bad = k] : o \in 1..3, k \in {"version", "hash33", "hash31", "root33", "proof33"}})
        ELSE \* one dimension at a time around the valid claim (W1, version 0, tree T2, position 1, block hash h1)
             {Claim("u1", 1, o, w, 0, "T2", 1, "h1", "none") : o \in 1..3, w \in WVariants}
             \cup {[always |-> TRUE] @@ Claim("u1", 1, o, [W1 EXCEPT !.amt = 5], 0, "T2", 1, "h1", "none") : o \in 1..3}   \* W1's amount + 2^64
             \cup {Claim("u1", 1, o, W1, 1, "T2", 1, "h1", "none") : o \in 1..3}
             \cup {Claim("u1", 1, o, W1, 0, "T2", 2, "h1", "none") : o \in 1..3}
             \cup {Claim("u1", 1, o, W1, 0, "T3", 2, "h2", "none") : o \in 1..3}
             \cup {Claim("u1", 1, o, W1, 0, "T2", 1, "h2", "none") : o \in 1..3}
             \cup {Claim("u1", 1, o, W1, 0, "T2", 1, "h1", m) : o \in 1..3, m \in muts}
             \* byte fields of a wrong length (the longer ones keep the right bytes as a prefix): version, block hash, storage root, a proof item
             \cup {[Claim("u1", 1, o, W1, 0, "T2", 1, "h1", "none") EXCEPT !.bad = k] : o \in 1..3, k \in {"version", "hash33", "hash31", "root33", "proof33"}})

AuthSigners == {"gov", "p1", "p2", "c1", "c2", "x"}
AuthEvents(s) ==
  LET n == s.nextOut["1"] IN
  Advance(s, 4, {4})
  \cup Creates(s, {"x"}, {Cfg("p1", "c1", 2, MetaNone)})
  \cup (IF n <= 2 THEN Proposes(AuthSigners, {1}, {n}, {n}, {Root(0, "T1", "h1")}) ELSE {})
  \cup Deletes(AuthSigners, {1}, {1})
  \cup UpdProposer(AuthSigners, {1}, {"p1", "p2"})
  \cup UpdChallenger(AuthSigners, {1}, {"c1", "c2"})
  \cup (IF Len(s.batch["1"]) <= 1 THEN UpdBatch(AuthSigners, {1}) ELSE {})
  \cup (IF Len(s.batch["1"]) = 2 THEN UpdBatch({"p1", "p2"}, {1}) ELSE {})      \* a second update under the same last finalized output
  \cup (IF s.now = 4 THEN ExpImp ELSE {})
  \cup (IF Has(s.cfg, "1") /\ ~s.cfg["1"].oracle THEN UpdOracle(AuthSigners, {1}) ELSE {})
  \cup (IF Has(s.cfg, "1") /\ s.cfg["1"].meta.cls = "none" THEN UpdMeta(AuthSigners, {1}, {[cls |-> "plain", chs |-> << >>]}) ELSE {})
  \cup (IF s.fee = 0 THEN UpdParams(AuthSigners, {1}) ELSE {})
  \cup RecBatch({"x"}, {1})

PermMetas == {MetaNone, [cls |-> "perm", chs |-> <<"ch1">>], [cls |-> "perm", chs |-> <<"ch1", "ch2">>],
              [cls |-> "unknownField", chs |-> <<"ch1">>], [cls |-> "casedKey", chs |-> <<"ch2">>],
              [cls |-> "perm", chs |-> <<"ch2", "ch2">>], [cls |-> "trailing", chs |-> <<"ch1">>], [cls |-> "incomplete", chs |-> <<"ch1">>]}
              \cup (IF Thorough THEN {[cls |-> "notJSON", chs |-> <<"ch1">>], [cls |-> "wrongType", chs |-> <<"ch1">>]} ELSE {})
PermEvents(s) ==
  Creates(s, {"x"}, {Cfg("p1", c, 2, m) : c \in {"c1", "c2"}, m \in PermMetas})
  \cup UpdMeta({"p1", "x"}, {1, 2}, PermMetas)
  \cup UpdChallenger({"gov"}, {1, 2}, {"c1", "c2"})
  \cup {[type |-> "ChannelOpen", ch |-> c] : c \in Chans}
  \cup {[type |-> "ChannelSend", ch |-> c] : c \in Chans}
  \cup {[type |-> "ChannelTake", ch |-> c, who |-> "x"] : c \in Chans}

(* C04: trees of every size x every leaf position, each leaf claimed through the real handler *)
TreeEvents(s) ==
  LET escrow == s.bal["esc1"]["d1"] IN
  Creates(s, {"x"}, {Cfg("p1", "c1", 2, MetaNone)})
  \cup (IF Has(s.cfg, "1") /\ escrow < MaxTreeN THEN Deposits({"u1"}, {1}, {"u2"}, {"d1"}, {IF MaxTreeN - escrow >= 3 THEN 3 ELSE MaxTreeN - escrow}, {"p0"}) ELSE {})
  \cup (IF escrow >= MaxTreeN /\ s.nextOut["1"] = 1 THEN Proposes({"p1"}, {1}, {1}, {1}, {Root(0, NName(n), "h1") : n \in 1..MaxTreeN}) ELSE {})
  \cup (IF s.nextOut["1"] = 2 THEN Advance(s, 4, {4}) ELSE {})
  \cup (IF s.nextOut["1"] = 2 /\ s.now = 4
        THEN LET t == s.outs["1"]["1"].root.t  n == Len(Trees[t])
                 nxt == Cardinality(DOMAIN s.claimed["1"]) + 1 IN
             {Claim("x", 1, 1, WN(i), 0, t, i, "h1", "none") : i \in {nxt, n} \cap 1..n}
             \cup {Claim("x", 1, 1, WN(i), 0, t, j, "h1", "none") : i \in {nxt} \cap 1..n, j \in {nxt + 1} \cap 1..n}
        ELSE {})

(* C05 at the edge of representable durations: one tick is about 136 years, periods of one and two ticks *)
WindowEvents(s) ==
  \* a second bridge with its own period may exist: the window of an output is its own bridge's, whatever the other bridge's id or period
  Advance(s, 3, {0, 1, 2})
  \cup Creates(s, {"u1"}, {Cfg("p1", "c1", p, MetaNone) : p \in {1, 2, 3}})     \* 3 ticks exceed what a duration can hold: the harness passes the largest duration ("never")
  \cup (IF s.nextOut["1"] <= 2 THEN Proposes({"p1"}, {1}, {s.nextOut["1"]}, {s.nextOut["1"]}, {Root(0, "T1", "h1")}) ELSE {})
  \cup Deletes({"c1"}, {1}, 1..2)
  \cup (IF s.l1seq["1"] <= 1 THEN Deposits({"u1"}, {1}, {"u2"}, {"d1"}, {1}, {"p0"}) ELSE {})
  \cup {Claim("x", 1, o, W1, 0, "T1", 1, "h1", "none") : o \in 1..2}
  \cup UpdProposer({"gov", "p1"}, {1}, {"p2"})       \* the proposer is replaced while outputs are pending
  \cup (IF s.now = 0 THEN {[type |-> "InitRaw", period |-> p] : p \in {-1, 0, 1}} ELSE {})     \* a genesis file with other periods handed to InitGenesis

Events(s) ==
  CASE Fam = "window" -> WindowEvents(s)
    [] Fam = "trees" -> TreeEvents(s)
    [] Fam = "oracle" -> OracleEvents(s)
    [] Fam = "ledger" -> LedgerEvents(s)
    [] Fam = "claims" -> ClaimEvents(s)
    [] Fam = "auth"   -> AuthEvents(s)
    [] Fam = "perm"   -> PermEvents(s)

MaxB == CASE Fam = "window" -> 2 [] Fam = "trees" -> 1 [] Fam = "oracle" -> 1 [] Fam = "ledger" -> 2 [] Fam = "claims" -> 2 [] Fam = "auth" -> 1 [] Fam = "perm" -> 2

Amt0 == IF Fam = "trees" THEN MaxTreeN ELSE 8
S0 == InitStateSec(BKeys, Accts, Denoms, {"u1", "u2"}, Amt0, "d1", Chans, 3, MaxB, Devs, IF Fam = "window" THEN 1 ELSE 2)

----------------------------------------------------------------------------
Init == /\ st = S0
        /\ last = [e |-> [type |-> "Init"], ok |-> TRUE, resp |-> NoResp, failed |-> {}]

Next == \E e \in Events(st) :
          LET r == Step(st, e) IN
            /\ st' = r.st
            /\ last' = [e |-> e, ok |-> r.ok, resp |-> r.resp, failed |-> r.failed]

Spec == Init /\ [][Next]_vars

View == st

ASSUME PrintT("META " \o ToJson([bkeys |-> BKeys, accts |-> Accts, denoms |-> Denoms, funded |-> {"u1", "u2"}, amt0 |-> Amt0,
                                   chans |-> Chans, devs |-> Devs, maxB |-> MaxB, feeDenom |-> "d1", trees |-> Trees, cap |-> 3,
                                   l2top |-> IF Fam = "oracle" THEN 2 ELSE 0]))   \* oracle family: L2 block numbers 1 and 2 stand for 0 and MaxUint64 (order is all the model uses)

(* E2: print every generated transition (ACTION_CONSTRAINT; always TRUE).   *)
Emit ==
  \/ ~last'.ok /\ Cardinality(last'.failed) > FailCap /\ ~Has(last'.e, "always") /\ TLCGet("level") % 5 # 0     \* rejected transitions that fail more than FailCap guards are emitted from every fifth BFS level only
  \/ PrintT("EDGE " \o ToJson([from |-> st, e |-> last'.e, ok |-> last'.ok, resp |-> last'.resp,
                                failed |-> last'.failed, to |-> IF last'.ok THEN st' ELSE [same |-> TRUE]]))

----------------------------------------------------------------------------
(* Properties.  State predicates take the state as argument so that the     *)
(* trace specs can evaluate the same definitions on observed states.        *)
Range(a, b) == a..b
Contiguous(s) == \A k \in DOMAIN s.outs : DOMAIN s.outs[k] = {K(i) : i \in 1..(s.nextOut[k] - 1)}
L2Increasing(s) ==
  \A k \in DOMAIN s.outs : \A i \in 1..(s.nextOut[k] - 2) :
     (Has(s.outs[k], K(i)) /\ Has(s.outs[k], K(i + 1))) => s.outs[k][K(i)].l2bn < s.outs[k][K(i + 1)].l2bn
TimeMonotone(s) ==
  \A k \in DOMAIN s.outs : \A i \in 1..(s.nextOut[k] - 2) :
     (Has(s.outs[k], K(i)) /\ Has(s.outs[k], K(i + 1))) => s.outs[k][K(i)].t <= s.outs[k][K(i + 1)].t
BOf(k) == CHOOSE n \in 1..16 : K(n) = k
FinalAt(s, k, i) == Has(s.cfg, k) /\ Has(s.outs[k], K(i)) /\ IsFinalAt(s, BOf(k), s.outs[k][K(i)])
FinalPrefix(s) ==
  \A k \in DOMAIN s.cfg : \A j \in 1..(s.nextOut[k] - 1) : \A i \in 1..(j - 1) : FinalAt(s, k, j) => FinalAt(s, k, i)
PositivePeriod(s) == \A k \in DOMAIN s.cfg : s.cfg[k].period > 0
LastFinalQuery(s) ==
  \A k \in DOMAIN s.cfg :
     s.lastFinal[k] = Max({0} \cup {i \in 1..(s.nextOut[k] - 1) : FinalAt(s, k, i)})

(* action-level predicates over (pre-state, outcome record, post-state)     *)
IsOK(o, ty) == o.ok /\ o.e.type = ty
ProposeRule(s, o, t) ==
  IsOK(o, "ProposeOutput") =>
    LET k == K(o.e.b) i == o.e.idx IN
      /\ i = s.nextOut[k]
      /\ (i = 1 \/ o.e.l2bn > s.outs[k][K(i - 1)].l2bn)
      /\ t.outs[k] = Put(s.outs[k], K(i), MkOutput(o.e.root, o.e.l2bn, s.now, s.h))
      /\ t.nextOut[k] = i + 1
DeleteRule(s, o, t) ==
  IsOK(o, "DeleteOutput") =>
    LET k == K(o.e.b) i == o.e.idx IN
      /\ i < s.nextOut[k]
      /\ \A j \in i..(s.nextOut[k] - 1) : ~FinalAt(s, k, j)
      /\ DOMAIN t.outs[k] = {K(j) : j \in 1..(i - 1)}
      /\ \A j \in 1..(i - 1) : t.outs[k][K(j)] = s.outs[k][K(j)]
      /\ t.nextOut[k] = i
WindowHonoured(s, o, t) ==
  IsOK(o, "FinalizeTokenWithdrawal") =>
    LET k == K(o.e.b) i == K(o.e.out) IN
      Has(s.outs[k], i) /\ s.now + s.sec > s.outs[k][i].t + s.cfg[k].period
FinalIrreversible(s, o, t) ==
  \A k \in DOMAIN s.cfg : \A i \in 1..(s.nextOut[k] - 1) :
     FinalAt(s, k, i) => (Has(t.outs[k], K(i)) /\ t.outs[k][K(i)] = s.outs[k][K(i)] /\ FinalAt(t, k, i))
DeletableUntilFinal(s) ==
  \A k \in DOMAIN s.cfg : \A i \in 1..(s.nextOut[k] - 1) :
     (\A j \in i..(s.nextOut[k] - 1) : Has(s.outs[k], K(j)) /\ ~FinalAt(s, k, j)) =>
        \A a \in {Gov, s.cfg[k].proposer, s.cfg[k].challenger} :
           Step(s, [type |-> "DeleteOutput", signer |-> a, b |-> BOf(k), idx |-> i]).ok

(* C01 / C10 ledger properties over transitions                              *)
EscrowOf(k) == "esc" \o k
OnlyWithdrawalDebits(s, o, t) ==
  \A k \in DOMAIN s.l1seq : \A d \in DOMAIN s.bal[EscrowOf(k)] :
     t.bal[EscrowOf(k)][d] < s.bal[EscrowOf(k)][d] =>
        (IsOK(o, "FinalizeTokenWithdrawal") /\ K(o.e.b) = k)
EscrowDelta(s, o, t) ==       \* C01 conservation, stated per step: escrow moves exactly by what the event says
  \A k \in DOMAIN s.l1seq : \A d \in DOMAIN s.bal[EscrowOf(k)] :
     t.bal[EscrowOf(k)][d] - s.bal[EscrowOf(k)][d] =
       (IF IsOK(o, "InitiateTokenDeposit") /\ K(o.e.b) = k /\ o.e.denom = d THEN o.e.amt ELSE 0)
     + (IF IsOK(o, "BankSend") /\ o.e.to = EscrowOf(k) /\ o.e.denom = d THEN o.e.amt ELSE 0)
     - (IF IsOK(o, "FinalizeTokenWithdrawal") /\ K(o.e.b) = k /\ o.e.w.denom = d THEN o.e.w.amt ELSE 0)
BridgeView(s, k) ==
  [cfg |-> IF Has(s.cfg, k) THEN s.cfg[k] ELSE EmptyMap, l1seq |-> s.l1seq[k], outs |-> s.outs[k],
   nextOut |-> s.nextOut[k], batch |-> s.batch[k], esc |-> s.bal[EscrowOf(k)],
   claimed |-> s.claimed[k], pairs |-> s.pairs[k]]
TargetBridge(s, o) ==
  CASE o.e.type = "CreateBridge" -> K(s.nextB)
    [] o.e.type \in {"ProposeOutput", "DeleteOutput", "InitiateTokenDeposit", "FinalizeTokenWithdrawal", "UpdateProposer",
                     "UpdateChallenger", "UpdateBatchInfo", "UpdateOracleConfig", "UpdateMetadata", "RecordBatch"} -> K(o.e.b)
    [] o.e.type = "BankSend" -> IF \E k \in DOMAIN s.l1seq : EscrowOf(k) = o.e.to
                                  THEN CHOOSE k \in DOMAIN s.l1seq : EscrowOf(k) = o.e.to ELSE "-"
    [] OTHER -> "-"
Isolation(s, o, t) ==
  \A k \in DOMAIN s.l1seq : k # TargetBridge(s, o) => BridgeView(t, k) = BridgeView(s, k)
Touched(s, o) ==
  CASE o.e.type = "CreateBridge" -> {o.e.signer, Pool}
    [] o.e.type = "InitiateTokenDeposit" -> {o.e.signer, Esc(o.e.b)}
    [] o.e.type = "FinalizeTokenWithdrawal" -> {o.e.w.to, Esc(o.e.b)}
    [] o.e.type = "BankSend" -> {o.e.signer, o.e.to}
    [] OTHER -> {}
Bystanders(s, o, t) == \A a \in DOMAIN s.bal : a \notin Touched(s, o) => t.bal[a] = s.bal[a]
NoEffectOnReject(s, o, t) == ~o.ok => t = s

SeqGapFree(s, o, t) ==
  IsOK(o, "InitiateTokenDeposit") =>
    /\ o.resp.seq = s.l1seq[K(o.e.b)] /\ t.l1seq[K(o.e.b)] = s.l1seq[K(o.e.b)] + 1
    /\ \A k \in DOMAIN s.l1seq : k # K(o.e.b) => t.l1seq[k] = s.l1seq[k]
SeqOnlyByDeposit(s, o, t) == (~IsOK(o, "InitiateTokenDeposit")) => t.l1seq = s.l1seq
OnlyExisting(s, o, t) == IsOK(o, "InitiateTokenDeposit") => Has(s.cfg, K(o.e.b))
NewBridgeClean(s, o, t) ==
  IsOK(o, "CreateBridge") =>
    LET k == K(o.resp.bridge) IN
      /\ ~Has(s.cfg, k) /\ t.l1seq[k] = 1 /\ t.nextOut[k] = 1 /\ t.outs[k] = EmptyMap
      /\ t.claimed[k] = EmptyMap /\ t.pairs[k] = EmptyMap /\ Len(t.batch[k]) = 1
EventFaithful(s, o, t) ==
  IsOK(o, "InitiateTokenDeposit") =>
    LET v == o.resp.ev IN
      /\ v.bridge = o.e.b /\ v.seq = o.resp.seq /\ v.from = o.e.signer /\ v.to = o.e.to
      /\ v.l1denom = o.e.denom /\ v.l2denom = L2DenomOf(o.e.b, o.e.denom) /\ v.amt = o.e.amt /\ v.data = o.e.data
      /\ t.bal[Esc(o.e.b)][o.e.denom] - s.bal[Esc(o.e.b)][o.e.denom] = o.e.amt
PairDeterministic(s, o, t) ==
  /\ \A k \in DOMAIN s.pairs : \A p \in DOMAIN s.pairs[k] : Has(t.pairs[k], p) /\ t.pairs[k][p] = s.pairs[k][p]
  /\ IsOK(o, "InitiateTokenDeposit") =>
       t.pairs[K(o.e.b)][L2DenomOf(o.e.b, o.e.denom)] = o.e.denom

(* C02 / C03                                                                 *)
Soundness(s, o, t) ==
  IsOK(o, "FinalizeTokenWithdrawal") =>
    LET k == K(o.e.b) i == K(o.e.out) IN
      /\ Has(s.outs[k], i) /\ s.outs[k][i].root = o.e.root /\ o.e.proofOK
      /\ ~Has(s.claimed[k], LeafId(o.e.b, o.e.w))
      /\ Has(t.claimed[k], LeafId(o.e.b, o.e.w))
ClaimedMonotone(s, o, t) ==
  /\ \A k \in DOMAIN s.claimed : \A c \in DOMAIN s.claimed[k] : Has(t.claimed[k], c)
  /\ (t.claimed # s.claimed) => IsOK(o, "FinalizeTokenWithdrawal")

(* C12 (L1 part)                                                             *)
Allowed(s, e) ==
  LET k == IF Has(e, "b") THEN K(e.b) ELSE "-" IN
  CASE e.type = "ProposeOutput" -> Has(s.cfg, k) /\ e.signer = s.cfg[k].proposer
    [] e.type = "DeleteOutput" -> Has(s.cfg, k) /\ e.signer \in {Gov, s.cfg[k].proposer, s.cfg[k].challenger}
    [] e.type \in {"UpdateProposer", "UpdateBatchInfo", "UpdateMetadata", "UpdateOracleConfig"} ->
         Has(s.cfg, k) /\ e.signer \in {Gov, s.cfg[k].proposer}
    [] e.type = "UpdateChallenger" -> Has(s.cfg, k) /\ e.signer \in {Gov, s.cfg[k].challenger}
    [] e.type = "UpdateParams" -> e.signer = Gov
    [] OTHER -> TRUE
Permissioned == {"ProposeOutput", "DeleteOutput", "UpdateProposer", "UpdateBatchInfo", "UpdateMetadata",
                 "UpdateOracleConfig", "UpdateChallenger", "UpdateParams"}
AuthOnlyIf(s, o, t) == (o.ok /\ o.e.type \in Permissioned) => Allowed(s, o.e)
AuthSufficient(s, o, t) == (o.e.type \in Permissioned /\ ~o.ok /\ o.failed = {"auth"}) => ~Allowed(s, o.e)

(* C19                                                                       *)
GrantOnlyIf(s, o, t) ==
  (o.ok /\ o.e.type \in {"CreateBridge", "UpdateMetadata"}) =>
    LET m  == IF o.e.type = "CreateBridge" THEN o.e.cfg.meta ELSE o.e.meta
        ch == IF o.e.type = "CreateBridge" THEN o.e.cfg.challenger ELSE s.cfg[K(o.e.b)].challenger IN
      /\ m.cls = "perm" =>
           \A i \in 1..Len(m.chs) :
              /\ t.chan[m.chs[i]].admin = ch
              /\ (\/ (s.chan[m.chs[i]].seq = 1 /\ s.chan[m.chs[i]].admin = "")
                  \/ s.chan[m.chs[i]].admin = ch
                  \/ \E j \in 1..(i - 1) : m.chs[j] = m.chs[i])
      /\ m.cls # "perm" => t.chan = s.chan
ChallengerHandsOver(s, o, t) ==
  IsOK(o, "UpdateChallenger") =>
    LET m == s.cfg[K(o.e.b)].meta IN
      /\ m.cls = "perm" => \A i \in 1..Len(m.chs) : t.chan[m.chs[i]].admin = o.e.new
      /\ \A c \in DOMAIN s.chan : (m.cls # "perm" \/ ~\E i \in 1..Len(m.chs) : m.chs[i] = c) => t.chan[c] = s.chan[c]
AdminFrame(s, o, t) ==
  (t.chan # s.chan) => o.ok /\ o.e.type \in {"CreateBridge", "UpdateMetadata", "UpdateChallenger", "ChannelOpen", "ChannelSend", "ChannelTake"}

----------------------------------------------------------------------------
(* what TLC checks *)

Inv_Oracle == Contiguous(st) /\ L2Increasing(st) /\ TimeMonotone(st) /\ FinalPrefix(st) /\ LastFinalQuery(st) /\ DeletableUntilFinal(st)
Inv_PositivePeriod == PositivePeriod(st)

NextOutcome == [e |-> last'.e, ok |-> last'.ok, resp |-> last'.resp, failed |-> last'.failed]

P_ProposeRule       == [][ProposeRule(st, NextOutcome, st')]_vars
P_DeleteRule        == [][DeleteRule(st, NextOutcome, st')]_vars
P_WindowHonoured    == [][WindowHonoured(st, NextOutcome, st')]_vars
P_FinalIrreversible == [][FinalIrreversible(st, NextOutcome, st')]_vars
P_EscrowDelta       == [][EscrowDelta(st, NextOutcome, st')]_vars
P_OnlyWdDebits      == [][OnlyWithdrawalDebits(st, NextOutcome, st')]_vars
P_Isolation         == [][Isolation(st, NextOutcome, st')]_vars
P_Bystanders        == [][Bystanders(st, NextOutcome, st')]_vars
P_NoEffectOnReject  == [][NoEffectOnReject(st, NextOutcome, st')]_vars
P_SeqGapFree        == [][SeqGapFree(st, NextOutcome, st') /\ SeqOnlyByDeposit(st, NextOutcome, st')]_vars
P_OnlyExisting      == [][OnlyExisting(st, NextOutcome, st')]_vars
P_NewBridgeClean    == [][NewBridgeClean(st, NextOutcome, st')]_vars
P_EventFaithful     == [][EventFaithful(st, NextOutcome, st')]_vars
P_PairDeterministic == [][PairDeterministic(st, NextOutcome, st')]_vars
P_Soundness         == [][Soundness(st, NextOutcome, st') /\ ClaimedMonotone(st, NextOutcome, st')]_vars
P_AuthOnlyIf        == [][AuthOnlyIf(st, NextOutcome, st') /\ AuthSufficient(st, NextOutcome, st')]_vars
P_GrantOnlyIf       == [][GrantOnlyIf(st, NextOutcome, st') /\ ChallengerHandsOver(st, NextOutcome, st') /\ AdminFrame(st, NextOutcome, st')]_vars
=============================================================================
