--------------------------------- MODULE Ante ---------------------------------
(***************************************************************************)
(* L2 mempool admission (x/opchild/ante, x/opchild/lanes) as pure decision  *)
(* functions.  Prices are rationals n/D with a fixed denominator D.          *)
(***************************************************************************)
EXTENDS Integers, Sequences, FiniteSets

CONSTANT D      \* denominator of gas prices

MaxOf(a, b) == IF a >= b THEN a ELSE b
Ceil(n, d)  == (n + d - 1) \div d

(* fee floor: per denom the larger of the node's and the chain's minimum gas price (0 = none) *)
FloorPrice(c, d) == MaxOf(c.node[d], c.chain[d])
Required(c, d)   == Ceil(FloorPrice(c, d) * c.gas, D)         \* ceil(price * gas)
(* c = [check, gas, fee: denom -> amount, node: denom -> numerator, chain: denom -> numerator]; gas >= 1 *)
FeeAdmit(c) ==
  \/ ~c.check                                                   \* nothing is enforced outside CheckTx
  \/ \A d \in DOMAIN c.fee : FloorPrice(c, d) = 0               \* all floors zero: any fee passes
  \/ \E d \in DOMAIN c.fee : FloorPrice(c, d) > 0 /\ c.fee[d] >= Required(c, d)

(* system lane: exactly one oracle update, possibly wrapped once in a single-message authz exec.   *)
(* a message is [k |-> "oracle"|"send"|"deposit"] or [k |-> "exec", inner |-> <<messages>>]          *)
IsOracle(m) == m.k = "oracle"
SystemLane(msgs) ==
  /\ Len(msgs) = 1
  /\ \/ IsOracle(msgs[1])
     \/ (msgs[1].k = "exec" /\ Len(msgs[1].inner) = 1 /\ IsOracle(msgs[1].inner[1]))

(* free lane: fee payer or fee granter on the on-chain whitelist *)
(* the whitelist is whatever the last ACCEPTED parameter update set: an update naming an entry that is not an address     *)
(* ("bad:empty": the empty string) is refused as a whole and leaves the previous (here: empty) whitelist in force          *)
EffectiveWL(req) == IF "bad:empty" \in req THEN {} ELSE req
FreeLane(c) == LET wl == EffectiveWL(c.whitelist) IN c.payer \in wl \/ (c.granter # "" /\ c.granter \in wl)

(* redundant-relay filter.  c = [mode, simulate, next, msgs]; a deposit message carries its sequence *)
RECURSIVE Relay(_, _, _, _, _)
Relay(msgs, i, cur, nDep, nNoop) ==
  IF i > Len(msgs) THEN [err |-> FALSE, nDep |-> nDep, nNoop |-> nNoop]
  ELSE IF msgs[i].k # "deposit" THEN Relay(msgs, i + 1, cur, nDep, nNoop)
  ELSE IF msgs[i].seq < cur THEN Relay(msgs, i + 1, cur, nDep + 1, nNoop + 1)
  ELSE IF msgs[i].seq = cur THEN Relay(msgs, i + 1, cur + 1, nDep + 1, nNoop)
  ELSE [err |-> TRUE, nDep |-> nDep, nNoop |-> nNoop]
Redundant(c) ==
  IF c.mode \in {"check", "recheck"} /\ ~c.simulate
  THEN LET r == Relay(c.msgs, 1, c.next, 0, 0) IN
       IF r.err THEN "error" ELSE IF r.nDep > 0 /\ r.nNoop = r.nDep THEN "redundant" ELSE "pass"
  ELSE "pass"
(* the two directions the property states *)
AllStaleDeposits(c) == Len(c.msgs) > 0 /\ \A i \in 1..Len(c.msgs) : c.msgs[i].k = "deposit" /\ c.msgs[i].seq < c.next
HasFresh(c) == \E i \in 1..Len(c.msgs) : c.msgs[i].k = "deposit" /\ c.msgs[i].seq = c.next
=============================================================================
