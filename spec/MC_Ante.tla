-------------------------------- MODULE MC_Ante --------------------------------
(* Enumerates the input space of Ante.tla within small constants, prints one CASE line per input with   *)
(* the specification's decision (replayed through the real decorators / match handlers), and checks   *)
(* sanity properties of the decision functions.                                                        *)
EXTENDS Ante, Json, TLC

CONSTANTS Tier
Thorough == Tier = "thorough"

Denoms == {"da", "db"}
Prices == IF Thorough THEN {0, 1, 2, 4, 5} ELSE {0, 1, 2, 5}          \* numerators over D = 4: 0, 1/4, 1/2, 1, 5/4
Gases  == IF Thorough THEN {1, 2, 3, 4, 7, 1000} ELSE {1, 2, 3, 7}
Fees   == IF Thorough THEN 0..4 ELSE 0..3
PV     == [Denoms -> Prices]
FV     == [Denoms -> Fees]

FeeCases == {[check |-> ck, gas |-> g, fee |-> f, node |-> n, chain |-> c] : ck \in BOOLEAN, g \in Gases, f \in FV, n \in PV, c \in PV}

Oracle == [k |-> "oracle"]
SendM  == [k |-> "send"]
Dep(q) == [k |-> "deposit", seq |-> q]
DepB(q) == [k |-> "deposit", seq |-> q, bounce |-> TRUE]    \* a deposit to a blocked recipient: processed at its sequence, refunded to the L1 - fresh, not redundant
Exec(ms) == [k |-> "exec", inner |-> ms]
Atoms == {Oracle, SendM, Dep(3), Exec(<<Oracle>>), Exec(<<Oracle, Oracle>>), Exec(<<Exec(<<Oracle>>)>>), Exec(<<SendM>>), Exec(<< >>)}
MsgLists == {<< >>} \cup {<<a>> : a \in Atoms} \cup {<<a, b>> : a \in {Oracle, SendM, Exec(<<Oracle>>)}, b \in {Oracle, SendM, Exec(<<Oracle>>)}}
LaneCases == {[msgs |-> ms] : ms \in MsgLists}

People == {"w1", "w2", "u1"}
FreeCases == {[payer |-> p, granter |-> g, whitelist |-> w] : p \in People, g \in People \cup {""}, w \in (SUBSET {"w1", "w2"}) \cup {{"bad:empty"}, {"w1", "bad:empty"}}}

DepSeqs == {1, 2, 3, 4, 5}
RMsgs == {SendM} \cup {Dep(q) : q \in DepSeqs} \cup {DepB(3), DepB(2)}
RLists == {<<a>> : a \in RMsgs} \cup {<<a, b>> : a \in RMsgs, b \in RMsgs}
          \cup (IF Thorough THEN {<<a, b, c>> : a \in RMsgs, b \in RMsgs, c \in RMsgs} ELSE {<<Dep(1), Dep(2), Dep(3)>>, <<Dep(3), Dep(4), Dep(5)>>, <<Dep(1), SendM, Dep(2)>>})
RedundantCases == {[mode |-> m, simulate |-> s, next |-> 3, msgs |-> ms] : m \in {"check", "recheck", "deliver"}, s \in BOOLEAN, ms \in RLists}

(* sanity of the specification itself *)
Bump(f, d) == [f EXCEPT ![d] = @ + 1]
ASSUME \A c \in FeeCases : FeeAdmit(c) => \A d \in Denoms : FeeAdmit([c EXCEPT !.fee = Bump(c.fee, d)])            \* monotone in the fee
ASSUME \A c \in FeeCases : (c.check /\ FeeAdmit(c) /\ \E d \in Denoms : FloorPrice(c, d) > 0) =>
          \E d \in Denoms : FloorPrice(c, d) > 0 /\ c.fee[d] * D >= FloorPrice(c, d) * c.gas                            \* never below price * gas
ASSUME \A c \in RedundantCases : (c.mode # "deliver" /\ ~c.simulate /\ AllStaleDeposits(c)) => Redundant(c) = "redundant"
ASSUME \A c \in RedundantCases : (HasFresh(c) /\ Redundant(c) # "error") => Redundant(c) = "pass"
ASSUME \A c \in LaneCases : SystemLane(c.msgs) => Len(c.msgs) = 1

ASSUME \A c \in FeeCases : PrintT("CASE " \o ToJson([fn |-> "fee", c |-> c, want |-> FeeAdmit(c)]))
ASSUME \A c \in LaneCases : PrintT("CASE " \o ToJson([fn |-> "system", c |-> c, want |-> SystemLane(c.msgs)]))
ASSUME \A c \in FreeCases : PrintT("CASE " \o ToJson([fn |-> "free", c |-> c, want |-> FreeLane(c)]))
ASSUME \A c \in RedundantCases : PrintT("CASE " \o ToJson([fn |-> "redundant", c |-> c, want |-> Redundant(c),
                                                             stated |-> (c.mode # "deliver" /\ ~c.simulate /\ AllStaleDeposits(c)) \/ HasFresh(c)]))
ASSUME PrintT("COUNTS " \o ToJson([fee |-> Cardinality(FeeCases), system |-> Cardinality(LaneCases), free |-> Cardinality(FreeCases), redundant |-> Cardinality(RedundantCases)]))

VARIABLE dummy
Init == dummy = 0
Next == UNCHANGED dummy
Spec == Init /\ [][Next]_dummy
=============================================================================
