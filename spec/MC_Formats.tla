----------------------------- MODULE MC_Formats -----------------------------
(* Emits, for every operator of Formats and every structural case, a term with holes (CASE lines).   *)
(* TLC also checks structural sanity of the tree rule on the term algebra.                            *)
EXTENDS Formats, Json, TLC, FiniteSets

CONSTANTS MaxTree, MaxProof

H(n, k) == Hole(n, k)
Leaves(n) == [i \in 1..n |-> H("L" \o ToString(i), "b32")]

Cases ==
  { [fn |-> "leaf", rel |-> "any", term |-> Leaf(H("bridge", "u64"), H("seq", "u64"), H("from", "str"), H("to", "str"), H("denom", "str"), H("amt", "u64"))],
    [fn |-> "outputRoot", rel |-> "any", term |-> OutputRoot(H("version", "byte"), H("storageRoot", "b32"), H("blockHash", "b32"))],
    [fn |-> "l2denom", rel |-> "any", term |-> L2Denom(H("bridge", "u64"), H("denom", "str"))],
    [fn |-> "bridgeAddr", rel |-> "any", term |-> BridgeAddr(H("bridge", "u64"))] }
  \cup { [fn |-> "node", rel |-> r, term |-> Node(H("a", "b32"), H("b", "b32"))] : r \in {"lt", "eq", "gt", "adjacent", "any"} }
  \cup { [fn |-> "rootFromProof", rel |-> "any", n |-> n,
          term |-> RootFromProof(H("leaf", "b32"), [i \in 1..n |-> H("P" \o ToString(i), "b32")])] : n \in 0..MaxProof }
  \cup UNION { { [fn |-> "tree", rel |-> "any", n |-> n, i |-> i, term |-> TreeRoot(Leaves(n)), proof |-> ProofFor(Leaves(n), i)] : i \in 1..n } : n \in 1..MaxTree }

ValidTree(c) == c.fn # "tree" \/ c.i <= c.n

(* structural facts of the tree rule, checked on the term algebra *)
RECURSIVE Depth(_)
Depth(n) == IF n <= 1 THEN 0 ELSE 1 + Depth((n + 1) \div 2)
ASSUME \A n \in 1..MaxTree : \A i \in 1..n : Len(ProofFor(Leaves(n), i)) = Depth(n)
ASSUME \A n \in 1..MaxTree : TreeRoot(Leaves(n)).op \in {"sha3", "hole"}
ASSUME \A c \in {x \in Cases : ValidTree(x)} : PrintT("CASE " \o ToJson(c))

VARIABLE dummy
Init == dummy = 0
Next == UNCHANGED dummy
Spec == Init /\ [][Next]_dummy
=============================================================================
