// Package srcscan is a small guard that complements the replica runs of C18: replicas of one process read the same wall
// clock, so a dependence on it cannot show as a disagreement between them.  The scan walks the non-test sources of the
// two modules and reports every read of the wall clock (time.Now / time.Since / time.Until) that is not an argument of a
// telemetry call, and every import of math/rand.
package srcscan

import (
	"go/ast"
	"go/parser"
	"go/token"
	"os"
	"path/filepath"
	"strings"
)

type Finding struct {
	File string `json:"file"`
	Line int    `json:"line"`
	What string `json:"what"`
}

func Scan(repo string) ([]Finding, error) {
	var out []Finding
	for _, dir := range []string{"x/ophost", "x/opchild"} {
		err := filepath.Walk(filepath.Join(repo, dir), func(path string, info os.FileInfo, err error) error {
			if err != nil {
				return err
			}
			if info.IsDir() || !strings.HasSuffix(path, ".go") || strings.HasSuffix(path, "_test.go") || strings.HasSuffix(path, ".pb.go") || strings.HasSuffix(path, ".pb.gw.go") {
				return nil
			}
			if strings.Contains(path, "/client/") || strings.Contains(path, "/testutil/") {
				return nil // CLI code does not run in consensus
			}
			fset := token.NewFileSet()
			f, err := parser.ParseFile(fset, path, nil, 0)
			if err != nil {
				return err
			}
			rel, _ := filepath.Rel(repo, path)
			timeName := ""
			for _, im := range f.Imports {
				p := strings.Trim(im.Path.Value, `"`)
				if p == "golang.org/x/sync/errgroup" {
					out = append(out, Finding{rel, fset.Position(im.Pos()).Line, "imports " + p + " (concurrent evaluation: which error is returned may depend on scheduling)"})
				}
				if p == "math/rand" || p == "math/rand/v2" {
					out = append(out, Finding{rel, fset.Position(im.Pos()).Line, "imports " + p})
				}
				if p == "time" {
					timeName = "time"
					if im.Name != nil {
						timeName = im.Name.Name
					}
				}
			}
			ast.Inspect(f, func(n ast.Node) bool {
				if g, ok := n.(*ast.GoStmt); ok {
					out = append(out, Finding{rel, fset.Position(g.Pos()).Line, "starts a goroutine (results may depend on scheduling)"})
				}
				return true
			})
			if timeName == "" {
				return nil
			}
			var stack []ast.Node
			ast.Inspect(f, func(n ast.Node) bool {
				if n == nil {
					stack = stack[:len(stack)-1]
					return true
				}
				stack = append(stack, n)
				call, ok := n.(*ast.CallExpr)
				if !ok {
					return true
				}
				sel, ok := call.Fun.(*ast.SelectorExpr)
				if !ok {
					return true
				}
				x, ok := sel.X.(*ast.Ident)
				if !ok || x.Name != timeName || (sel.Sel.Name != "Now" && sel.Sel.Name != "Since" && sel.Sel.Name != "Until") {
					return true
				}
				for _, anc := range stack[:len(stack)-1] {
					if c, ok := anc.(*ast.CallExpr); ok {
						if s, ok := c.Fun.(*ast.SelectorExpr); ok {
							if xi, ok := s.X.(*ast.Ident); ok && xi.Name == "telemetry" {
								return true // measuring how long a handler took is not consensus state
							}
						}
					}
				}
				out = append(out, Finding{rel, fset.Position(call.Pos()).Line, "reads the wall clock: " + timeName + "." + sel.Sel.Name})
				return true
			})
			return nil
		})
		if err != nil {
			return nil, err
		}
	}
	return out, nil
}
