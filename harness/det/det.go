// Package det records what K independent instances do on the same histories (C18).  Histories are
// random paths through the transition graph TLC emitted for a model family, so they are behaviours of
// the specification; every instance is a fresh fixture.  One line per log position is written with the
// digests and output hashes of all replicas; spec/Trace_Replicas.tla checks Agreement on the file.
package det

import (
	"crypto/sha256"
	"encoding/hex"
	"encoding/json"
	"math/rand"
	"os"
	"sort"
	"time"

	"verifharness/absx"
	"verifharness/walk"
)

var zones = []*time.Location{time.UTC, time.FixedZone("KST", 9*3600), time.FixedZone("NST", -(3*3600 + 1800)), time.FixedZone("LINT", 14*3600)}

type Impl interface {
	walk.Impl
	Digest() string // raw dump of every module store
	Raw() string    // raw record of the last execution (result, error, response bytes, ordered events / validator updates)
}

func h(s string) string { x := sha256.Sum256([]byte(s)); return hex.EncodeToString(x[:8]) }

type Stats struct {
	Paths, Lines, Replicas int
	ByType                 map[string]int
	Local                  int // disagreements seen by the recorder itself (the verdict comes from TLC)
}

// Run executes nPaths random paths of length <= maxLen on k fresh replicas each.
func Run(g *walk.Graph, mk func() Impl, nPaths, maxLen, k int, seed int64, outPath string) (*Stats, error) {
	rng := rand.New(rand.NewSource(seed))
	fh, err := os.Create(outPath)
	if err != nil {
		return nil, err
	}
	defer fh.Close()
	enc := json.NewEncoder(fh)
	st := &Stats{Replicas: k, ByType: map[string]int{}}
	root0 := mk()
	root, ok := g.Lookup(root0.Project())
	if !ok {
		return nil, os.ErrInvalid
	}
	// an instance that has seen unrelated traffic before (same process): its history must not matter
	// targeted histories: shortest paths to the transitions where iteration order matters most - blocks whose
	// returned validator-update batch has two or more entries (several validators leaving or joining at once)
	parent := map[int]*walk.Edge{root: nil}
	queue := []int{root}
	for len(queue) > 0 {
		n := queue[0]
		queue = queue[1:]
		for _, e := range g.Out[n] {
			if e.OK {
				if _, seen := parent[e.To]; !seen {
					parent[e.To] = e
					queue = append(queue, e.To)
				}
			}
		}
	}
	batchLen := func(st absx.M) int {
		if l, ok := st["batch"].([]any); ok { // the validator-update batch of the ValSet state; other models have no such list
			return len(l)
		}
		return 0
	}
	var targets []*walk.Edge
	seenTo := map[int]bool{}
	for from, es := range g.Out {
		if _, reach := parent[from]; !reach {
			continue
		}
		for _, e := range es {
			execsLen := func(st absx.M) int {
				if p, ok := st["params"].(absx.M); ok {
					if l, ok := p["execs"].([]any); ok {
						return len(l)
					}
				}
				return 0
			}
			multiBatch := batchLen(g.States[e.To]) >= 2 && absx.Canon(g.States[e.To]["batch"]) != absx.Canon(g.States[e.From]["batch"])
			multiExecs := execsLen(g.States[e.To]) >= 2 && absx.Canon(g.States[e.To]["params"]) != absx.Canon(g.States[e.From]["params"])
			// ... and deposits whose hook delivers a deposit with a hook of its own (re-entrant paths are where process-wide state hides)
			nested := false
			if hk, ok := e.E["hook"].(absx.M); ok {
				if ms, ok := hk["msgs"].([]any); ok {
					for _, m := range ms {
						if mm, ok := m.(absx.M); ok {
							if _, has := mm["hook"]; has {
								nested = true
							}
						}
					}
				}
			}
			if e.OK && !seenTo[e.To] && (multiBatch || multiExecs || nested) {
				seenTo[e.To] = true
				targets = append(targets, e)
			}
		}
	}
	sort.Slice(targets, func(i, j int) bool {
		a, b := batchLen(g.States[targets[i].To]), batchLen(g.States[targets[j].To])
		if a != b {
			return a > b
		}
		return absx.Canon(targets[i].E)+absx.Canon(g.States[targets[i].From]) < absx.Canon(targets[j].E)+absx.Canon(g.States[targets[j].From])
	})
	if len(targets) > nPaths {
		targets = targets[:nPaths]
	}
	total := nPaths + len(targets)
	for p := 0; p < total; p++ {
		// choose the path on the graph first
		var path []*walk.Edge
		n := root
		if p >= nPaths {
			t := targets[p-nPaths]
			for e := parent[t.From]; e != nil; e = parent[e.From] {
				path = append([]*walk.Edge{e}, path...)
			}
			path = append(path, t)
			n = t.To
		}
		for p < nPaths && len(path) < maxLen {
			out := g.Out[n]
			if len(out) == 0 {
				break
			}
			var oks, fails []*walk.Edge
			for _, e := range out {
				if e.OK && e.To != n {
					oks = append(oks, e)
				} else {
					fails = append(fails, e)
				}
			}
			var e *walk.Edge
			if len(oks) > 0 && (len(fails) == 0 || rng.Intn(100) < 80) {
				e = oks[rng.Intn(len(oks))]
			} else if len(fails) > 0 {
				e = fails[rng.Intn(len(fails))]
			} else {
				break
			}
			path = append(path, e)
			n = e.To
		}
		reps := make([]Impl, k)
		for r := range reps {
			reps[r] = mk()
		}
		for i, e := range path {
			digests, outs := make([]string, k), make([]string, k)
			for r := range reps {
				// every second replica is a node that first executes the event speculatively on a branch it then abandons
				// (optimistic execution / a rejected proposal): what a block does must not depend on that
				// (not for what an operator does to the process outside block execution: registering a plan, genesis)
				ty := absx.Str(e.E["type"])
				if sf, ok := reps[r].(interface{ SpecFork() walk.Impl }); ok && r%2 == 1 && ty != "RegisterPlan" && ty != "InitGenesis" && ty != "ExportImport" {
					sf.SpecFork().Exec(e.E)
				}
				// replicas live on hosts with different local time zones: nothing a node returns may depend on time.Local
				savedLocal := time.Local
				time.Local = zones[r%len(zones)]
				okr, resp, errs := reps[r].Exec(e.E)
				time.Local = savedLocal
				digests[r] = h(reps[r].Digest())
				outs[r] = h(reps[r].Raw() + "|" + absx.Canon(resp) + "|" + errs + "|" + map[bool]string{true: "ok", false: "fail"}[okr])
			}
			for r := 1; r < k; r++ {
				if digests[r] != digests[0] || outs[r] != outs[0] {
					st.Local++
					break
				}
			}
			st.Lines++
			st.ByType[absx.Str(e.E["type"])]++
			if err := enc.Encode(map[string]any{"path": p, "pos": i + 1, "event": e.E, "digests": digests, "outs": outs}); err != nil {
				return nil, err
			}
		}
		st.Paths++
	}
	return st, nil
}
