package l1

import (
	"bytes"
	"fmt"
	"sync"

	"verifharness/fmtx"

	ophosttypes "github.com/initia-labs/OPinit/x/ophost/types"
)

// ExportImport exports the module's genesis, passes it through the JSON codec and ValidateGenesis,
// initialises a FRESH chain from it (auth, bank and the harness's channel table are carried over by
// their own export/import) and switches this Chain to the fresh instance, so that every later event
// runs on the re-imported chain.  It reports whether a second export equals the first.
func (ch *Chain) ExportImport() (same bool, err error) {
	defer func() {
		if r := recover(); r != nil {
			err = fmt.Errorf("panic during genesis round trip: %v", r)
		}
	}()
	f := ch.F
	ch.ClaimsKept = ch.claimsProbe()
	gs := f.Host.ExportGenesis(ch.Ctx)
	bz, err := f.Cdc.MarshalJSON(gs)
	if err != nil {
		return false, err
	}
	var gs2 ophosttypes.GenesisState
	if err := f.Cdc.UnmarshalJSON(bz, &gs2); err != nil {
		return false, err
	}
	if err := ophosttypes.ValidateGenesis(&gs2, f.AC); err != nil {
		return false, fmt.Errorf("ValidateGenesis rejects exported genesis: %w", err)
	}
	f2, ctx2 := NewFixture()
	ctx2 = ctx2.WithBlockHeader(ch.Ctx.BlockHeader())
	// InitChain runs the modules' InitGenesis on a context whose block height is 0 (initial height 1); blocks then continue
	initCtx := ctx2.WithBlockHeight(0)
	f2.Account.InitGenesis(initCtx, *f.Account.ExportGenesis(ch.Ctx))
	f2.Bank.InitGenesis(initCtx, f.Bank.ExportGenesis(ch.Ctx))
	it := ch.Ctx.KVStore(f.Keys[permStoreKey]).Iterator(nil, nil)
	for ; it.Valid(); it.Next() {
		ctx2.KVStore(f2.Keys[permStoreKey]).Set(append([]byte{}, it.Key()...), append([]byte{}, it.Value()...))
	}
	it.Close()
	f2.Host.InitGenesis(initCtx, &gs2)
	bz3, err := f2.Cdc.MarshalJSON(f2.Host.ExportGenesis(ctx2))
	if err != nil {
		return false, err
	}
	ch.F, ch.Ctx = f2, ctx2
	return bytes.Equal(bz, bz3), nil
}

// InitRaw hands the exported genesis, with every bridge's finalization period replaced, to InitGenesis of a fresh chain as
// InitChain does (no ValidateGenesis).  It reports whether InitGenesis accepted it; the probe chain is thrown away.
func (ch *Chain) InitRaw(periodTicks int64) (accepted bool) {
	defer func() {
		if r := recover(); r != nil {
			accepted = false
		}
	}()
	f := ch.F
	gs := f.Host.ExportGenesis(ch.Ctx)
	bz, err := f.Cdc.MarshalJSON(gs)
	if err != nil {
		panic(err)
	}
	var gs2 ophosttypes.GenesisState
	if err := f.Cdc.UnmarshalJSON(bz, &gs2); err != nil {
		panic(err)
	}
	for i := range gs2.Bridges {
		gs2.Bridges[i].BridgeConfig.FinalizationPeriod = TicksDuration(periodTicks)
	}
	f2, ctx2 := NewFixture()
	f2.Host.InitGenesis(ctx2.WithBlockHeight(0), &gs2)
	return true
}

var (
	edgeMu    sync.Mutex
	edgeCache = map[string][32]byte{}
)

// edgeHash finds (and remembers) the hash of a withdrawal tuple of the bridge that starts with the given bytes.
func edgeHash(id uint64, from, to, denom string, pre []byte) [32]byte {
	key := fmt.Sprintf("%d|%s|%s|%s|%x", id, from, to, denom, pre)
	edgeMu.Lock()
	defer edgeMu.Unlock()
	if a, ok := edgeCache[key]; ok {
		return a
	}
	for seq := uint64(1 << 40); ; seq++ {
		h := fmtx.Leaf(id, seq, from, to, denom, 1)
		if bytes.HasPrefix(h, pre) {
			var a [32]byte
			copy(a[:], h)
			edgeCache[key] = a
			return a
		}
	}
}

// claimsProbe: claim records are keyed by (bridge, withdrawal hash); the hashes of the few withdrawals a model pays
// never sit at the edges of the key space.  On a branch of the current state the probe records, for every bridge, claims
// of real withdrawal tuples whose hashes start with 0x00, 0xff and 0xffff (found by search over the sequence), takes
// that state through the same export / validate / import path and asks the re-imported chain about each of them.
func (ch *Chain) claimsProbe() (kept bool) {
	defer func() {
		if r := recover(); r != nil {
			kept = false
		}
	}()
	f := ch.F
	cc, _ := ch.Ctx.CacheContext()
	type rec struct {
		b uint64
		h [32]byte
	}
	var recs []rec
	var ids []uint64
	if err := f.Host.BridgeConfigs.Walk(cc, nil, func(id uint64, _ ophosttypes.BridgeConfig) (bool, error) {
		ids = append(ids, id)
		return len(ids) >= 3, nil
	}); err != nil {
		panic(err)
	}
	from, to, denom := ch.C.Addr("u2"), ch.C.Addr("u1"), ch.C.Denom("d1")
	for _, id := range ids {
		for _, pre := range [][]byte{{0x00}, {0xff}, {0xff, 0xff}} {
			a := edgeHash(id, from, to, denom, pre)
			if err := f.Host.RecordProvenWithdrawal(cc, id, a); err != nil {
				panic(err)
			}
			recs = append(recs, rec{id, a})
		}
	}
	gs := f.Host.ExportGenesis(cc)
	bz, err := f.Cdc.MarshalJSON(gs)
	if err != nil {
		panic(err)
	}
	var gs2 ophosttypes.GenesisState
	if err := f.Cdc.UnmarshalJSON(bz, &gs2); err != nil {
		panic(err)
	}
	// a genesis file is a JSON document: the order in which a bridge's claim records are listed carries no meaning
	for i := range gs2.Bridges {
		pw := gs2.Bridges[i].ProvenWithdrawals
		for a, b := 0, len(pw)-1; a < b; a, b = a+1, b-1 {
			pw[a], pw[b] = pw[b], pw[a]
		}
	}
	if err := ophosttypes.ValidateGenesis(&gs2, f.AC); err != nil {
		return false
	}
	f2, ctx2 := NewFixture()
	ctx2 = ctx2.WithBlockHeader(ch.Ctx.BlockHeader())
	initCtx := ctx2.WithBlockHeight(0)
	f2.Account.InitGenesis(initCtx, *f.Account.ExportGenesis(cc))
	f2.Bank.InitGenesis(initCtx, f.Bank.ExportGenesis(cc))
	f2.Host.InitGenesis(initCtx, &gs2)
	for _, r := range recs {
		ok, err := f2.Host.HasProvenWithdrawal(ctx2, r.b, r.h)
		if err != nil || !ok {
			return false
		}
	}
	return true
}
