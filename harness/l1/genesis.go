package l1

import (
	"bytes"
	"fmt"

	ophosttypes "github.com/initia-labs/OPinit/x/ophost/types"
)

// ExportImport exports the module's genesis, passes it through the JSON codec and ValidateGenesis,
// initialises a FRESH chain from it (auth, bank and the harness's channel table are carried over by
// their own export/import) and switches this Chain to the fresh instance, so that every later event
// runs on the re-imported chain.  It reports whether a second export equals the first.
func (ch *Chain) ExportImport() (same bool, err error) {
	defer func() {
		if r := recover(); r != nil {
			err = fmt.Errorf("panic during genesis round trip: %v", r)
		}
	}()
	f := ch.F
	gs := f.Host.ExportGenesis(ch.Ctx)
	bz, err := f.Cdc.MarshalJSON(gs)
	if err != nil {
		return false, err
	}
	var gs2 ophosttypes.GenesisState
	if err := f.Cdc.UnmarshalJSON(bz, &gs2); err != nil {
		return false, err
	}
	if err := ophosttypes.ValidateGenesis(&gs2, f.AC); err != nil {
		return false, fmt.Errorf("ValidateGenesis rejects exported genesis: %w", err)
	}
	f2, ctx2 := NewFixture()
	ctx2 = ctx2.WithBlockHeader(ch.Ctx.BlockHeader())
	// InitChain runs the modules' InitGenesis on a context whose block height is 0 (initial height 1); blocks then continue
	initCtx := ctx2.WithBlockHeight(0)
	f2.Account.InitGenesis(initCtx, *f.Account.ExportGenesis(ch.Ctx))
	f2.Bank.InitGenesis(initCtx, f.Bank.ExportGenesis(ch.Ctx))
	it := ch.Ctx.KVStore(f.Keys[permStoreKey]).Iterator(nil, nil)
	for ; it.Valid(); it.Next() {
		ctx2.KVStore(f2.Keys[permStoreKey]).Set(append([]byte{}, it.Key()...), append([]byte{}, it.Value()...))
	}
	it.Close()
	f2.Host.InitGenesis(initCtx, &gs2)
	bz3, err := f2.Cdc.MarshalJSON(f2.Host.ExportGenesis(ctx2))
	if err != nil {
		return false, err
	}
	ch.F, ch.Ctx = f2, ctx2
	return bytes.Equal(bz, bz3), nil
}

// InitRaw hands the exported genesis, with every bridge's finalization period replaced, to InitGenesis of a fresh chain as
// InitChain does (no ValidateGenesis).  It reports whether InitGenesis accepted it; the probe chain is thrown away.
func (ch *Chain) InitRaw(periodTicks int64) (accepted bool) {
	defer func() {
		if r := recover(); r != nil {
			accepted = false
		}
	}()
	f := ch.F
	gs := f.Host.ExportGenesis(ch.Ctx)
	bz, err := f.Cdc.MarshalJSON(gs)
	if err != nil {
		panic(err)
	}
	var gs2 ophosttypes.GenesisState
	if err := f.Cdc.UnmarshalJSON(bz, &gs2); err != nil {
		panic(err)
	}
	for i := range gs2.Bridges {
		gs2.Bridges[i].BridgeConfig.FinalizationPeriod = TicksDuration(periodTicks)
	}
	f2, ctx2 := NewFixture()
	f2.Host.InitGenesis(ctx2.WithBlockHeight(0), &gs2)
	return true
}
