package l1

import (
	"encoding/json"
	"fmt"
	"io"
	"math/big"
	"math/rand"
	"strings"

	"verifharness/absx"
)

// Drive runs seeded random histories on the real L1 chain and records one NDJSON line per event with the
// event, the implementation's result / response and the full projected state (engine E3; the file is
// validated by spec/Trace_L1.tla).  The alphabet is wider than the bounded models': five bridges, three
// denoms, amounts up to thousands of units at scales 1 / 10^6 / 2^62, long output logs, trees of up to 40
// leaves, perturbed claims, role rotations, metadata updates, plain sends to escrow accounts, genesis
// round trips.
type driver struct {
	rng   *rand.Rand
	ch    *Chain
	wds   map[int64][]M // per bridge: invented L2 withdrawal tuples (leaf records)
	trees map[string]int64
	run   int
}

func pick[T any](r *rand.Rand, xs []T) T { return xs[r.Intn(len(xs))] }

var users = []string{"u1", "u2", "u3", "u4"}
var signers = []string{"gov", "p1", "p2", "c1", "c2", "u1", "x"}

func DriveCfg() RunCfg {
	return RunCfg{
		BKeys:  []string{"1", "2", "3", "4", "5"},
		Accts:  []string{"gov", "p1", "p2", "c1", "c2", "u1", "u2", "u3", "u4", "x", "esc1", "esc2", "esc3", "esc4", "esc5", "pool"},
		Denoms: []string{"d1", "d2", "d3"}, Funded: []string{"u1", "u2", "u3", "u4"}, Amt0: 5000, FeeDenom: "d1",
		Chans: []string{"ch1", "ch2", "ch3"}, MaxB: 4,
	}
}

func (d *driver) st() M { return d.ch.Project() }

func (d *driver) meta() M {
	cls := pick(d.rng, []string{"none", "none", "plain", "perm", "perm", "unknownField", "casedKey", "notJSON", "wrongType", "trailing", "incomplete"})
	var chs []any
	if cls != "none" && cls != "plain" {
		n := 1 + d.rng.Intn(2)
		for i := 0; i < n; i++ {
			chs = append(chs, pick(d.rng, d.ch.Cfg.Chans))
		}
	}
	if chs == nil {
		chs = []any{}
	}
	return M{"cls": cls, "chs": chs}
}

func (d *driver) bridge(st M) int64 {
	nb := absx.Int(st["nextB"])
	if nb <= 1 || d.rng.Intn(12) == 0 {
		return int64(1 + d.rng.Intn(5)) // may not exist
	}
	return 1 + int64(d.rng.Intn(int(nb-1)))
}

func (d *driver) treeFor(b int64, n int) (string, M) {
	id := fmt.Sprintf("R%dB%dN%d", d.run, b, n)
	leaves := make([]any, n)
	for i := 0; i < n; i++ {
		leaves[i] = d.wds[b][i]
	}
	return id, M{"id": id, "leaves": leaves}
}

func (d *driver) next() M {
	r := d.rng
	st := d.st()
	cfg := absx.Map(st["cfg"])
	nb := absx.Int(st["nextB"])
	cap := absx.Int(st["cap"])
	b := d.bridge(st)
	bk := fmt.Sprint(b)
	var roleOf = func(role string) string {
		if c, ok := cfg[bk]; ok && r.Intn(4) != 0 {
			return absx.Str(absx.Map(c)[role])
		}
		return pick(r, signers)
	}
	switch w := r.Intn(100); {
	case (w < 6 || nb == 1 && w < 50) && nb <= d.ch.Cfg.MaxB:
		period := int64(pick(r, []int{1, 2, 3, 5, 8, 8, 20, 2, 3, 4, 6, 0, -1, -4}))
		c := M{"proposer": pick(r, []string{"p1", "p2"}), "challenger": pick(r, []string{"c1", "c2"}),
			"period": period, "interval": int64(2), "startH": int64(1), "oracle": r.Intn(2) == 0, "meta": d.meta(), "bsub": "s1", "bchain": pick(r, []string{"INITIA", "CELESTIA"})}
		switch r.Intn(14) { // one malformed field now and then
		case 0:
			c["interval"] = int64(0)
		case 1:
			c["startH"] = int64(0)
		case 2:
			c["bsub"] = ""
		case 3:
			c["bchain"] = "UNSPECIFIED"
		case 4:
			c["proposer"] = BadNotBech32
		}
		return M{"type": "CreateBridge", "signer": pick(r, []string{"u1", "u2", "u1", "x"}), "cfg": c}
	case w < 24:
		amt := int64(r.Intn(40))
		if r.Intn(10) == 0 {
			amt = cap + int64(r.Intn(3)) // around the 64-bit boundary when the scale makes it reachable
			if amt > 4000 {
				amt = int64(r.Intn(4000))
			}
		}
		e := M{"type": "InitiateTokenDeposit", "signer": pick(r, users), "b": b, "to": pick(r, []string{"u1", "u2", "u3", BadNotBech32}),
			"denom": pick(r, []string{"d1", "d1", "d2", "d3"}), "amt": amt, "data": pick(r, []string{"p0", "p1", "p2"})}
		switch r.Intn(16) {
		case 0:
			e["signer"] = pick(r, []string{"x", BadNotBech32})
		case 1:
			e["to"] = BadEmpty
		case 2:
			e["denom"] = BadDenom
		}
		return e
	case w < 40:
		// the proposer commits to the first n invented withdrawals of the bridge
		if len(d.wds[b]) < 40 && r.Intn(2) == 0 {
			k := 1 + r.Intn(4)
			for i := 0; i < k; i++ {
				seq := int64(len(d.wds[b]) + 1)
				d.wds[b] = append(d.wds[b], M{"b": b, "seq": seq, "from": pick(r, users), "to": pick(r, users), "denom": pick(r, []string{"d1", "d1", "d2"}), "amt": int64(1 + r.Intn(6))})
			}
		}
		n := len(d.wds[b])
		idx := absx.Int(absx.Map(st["nextOut"])[bk])
		if r.Intn(8) == 0 {
			idx += int64(r.Intn(3)) - 1
		}
		l2bn := idx*3 + int64(r.Intn(3))
		if r.Intn(8) == 0 {
			l2bn = int64(r.Intn(int(idx*3 + 1)))
		}
		e := M{"type": "ProposeOutput", "signer": roleOf("proposer"), "b": b, "idx": idx, "l2bn": l2bn, "bad": "none"}
		if n == 0 || r.Intn(10) == 0 {
			e["root"] = M{"v": int64(0), "t": "TJ", "h": "h" + fmt.Sprint(r.Intn(3))}
		} else {
			id, tree := d.treeFor(b, n)
			e["root"] = M{"v": int64(r.Intn(2)), "t": id, "h": "h1"}
			e["tree"] = tree
		}
		return e
	case w < 46:
		return M{"type": "DeleteOutput", "signer": pick(r, []string{roleOf("challenger"), roleOf("proposer"), "gov", "x"}), "b": b, "idx": int64(r.Intn(5))}
	case w < 58:
		return M{"type": "AdvanceBlock", "dt": int64(pick(r, []int{0, 1, 1, 2, 3, 5, 9}))}
	case w < 78:
		// a claim: pick an output of the bridge, a leaf of its tree, then perturb sometimes
		outs := absx.Map(absx.Map(st["outs"])[bk])
		if len(outs) == 0 || len(d.wds[b]) == 0 {
			return M{"type": "AdvanceBlock", "dt": int64(1)}
		}
		var keys []string
		for k := range outs {
			keys = append(keys, k)
		}
		ok := pick(r, keys)
		var out int64
		fmt.Sscan(ok, &out)
		root := absx.Map(absx.Map(outs[ok])["root"])
		tid := absx.Str(root["t"])
		n := 0
		fmt.Sscanf(tid, fmt.Sprintf("R%dB%dN%%d", d.run, b), &n)
		if n == 0 || n > len(d.wds[b]) {
			n = len(d.wds[b])
		}
		id, tree := d.treeFor(b, n)
		pos := 1 + r.Intn(n)
		leaf := d.wds[b][pos-1]
		w := M{"seq": leaf["seq"], "from": leaf["from"], "to": leaf["to"], "denom": leaf["denom"], "amt": leaf["amt"]}
		e := M{"type": "FinalizeTokenWithdrawal", "signer": pick(r, users), "b": b, "out": out, "w": w, "v": root["v"], "tree": tree, "pos": int64(pos), "h": absx.Str(root["h"]), "mut": "none", "bad": "none"}
		switch r.Intn(13) {
		case 0:
			w["amt"] = absx.Int(w["amt"]) + 1
		case 1:
			w["to"] = pick(r, users)
		case 2:
			e["mut"] = pick(r, []string{"flip", "drop", "dup", "ext", "len31", "zeroext", "zeropre"})
			if e["mut"] == "len31" {
				e["bad"] = "prooflen"
			}
		case 3:
			if r.Intn(2) == 0 {
				e["bad"] = pick(r, []string{"version", "hash33", "hash31", "root33", "proof33"})
			} else {
				e["out"] = out + int64(r.Intn(3)) - 1
			}
		case 4:
			e["pos"] = int64(1 + r.Intn(n))
		case 5:
			e["b"] = d.bridge(st)
		case 6:
			e["v"] = int64(1) - absx.Int(root["v"])
		case 7:
			w["from"] = "up:" + absx.Str(w["from"]) // same sender written in upper case
		}
		_ = id
		return e
	case w < 81:
		return M{"type": "UpdateProposer", "signer": pick(r, []string{roleOf("proposer"), "gov", "x"}), "b": b, "new": pick(r, []string{"p1", "p2", BadNotBech32})}
	case w < 84:
		return M{"type": "UpdateChallenger", "signer": pick(r, []string{roleOf("challenger"), "gov", "x"}), "b": b, "new": pick(r, []string{"c1", "c2"})}
	case w < 87:
		return M{"type": "UpdateMetadata", "signer": pick(r, []string{roleOf("proposer"), "gov", "x"}), "b": b, "meta": d.meta()}
	case w < 89:
		return M{"type": "UpdateBatchInfo", "signer": pick(r, []string{roleOf("proposer"), "gov"}), "b": b, "bsub": pick(r, []string{"s2", ""}), "bchain": pick(r, []string{"CELESTIA", "INITIA", "UNSPECIFIED"})}
	case w < 90:
		return M{"type": "UpdateOracleConfig", "signer": pick(r, []string{roleOf("proposer"), "gov", "x"}), "b": b, "flag": r.Intn(2) == 0}
	case w < 91:
		return M{"type": "UpdateParams", "signer": pick(r, []string{"gov", "gov", "x"}), "fee": int64(r.Intn(3))}
	case w < 93:
		return M{"type": "BankSend", "signer": pick(r, users), "to": pick(r, []string{"esc1", "esc2", "esc3", "u1", "u2"}), "denom": pick(r, []string{"d1", "d2"}), "amt": int64(1 + r.Intn(5))}
	case w < 94:
		ch := pick(r, d.ch.Cfg.Chans)
		return M{"type": pick(r, []string{"ChannelOpen", "ChannelOpen", "ChannelSend", "ChannelTake"}), "ch": ch, "who": "x"}
	case w < 96:
		if r.Intn(3) == 0 {
			return M{"type": "InitRaw", "period": int64(r.Intn(4) - 2)}
		}
		return M{"type": "ExportImport"}
	default:
		if r.Intn(8) == 0 { // ask about a withdrawal that has been paid
			st := d.ch.Project()
			for bk, v := range absx.Map(st["claimed"]) {
				vm, ok := v.(M)
				if !ok {
					continue // a marker of the projection, not a bridge
				}
				for lid := range vm {
					var bb, seq, amt int64
					var from, to, denom string
					parts := strings.Split(lid, "|")
					if len(parts) != 6 {
						continue
					}
					fmt.Sscan(parts[0], &bb)
					fmt.Sscan(parts[1], &seq)
					from, to, denom = parts[2], parts[3], parts[4]
					fmt.Sscan(parts[5], &amt)
					_ = bk
					return M{"type": "Query", "q": "Claimed", "b": bb, "idx": int64(0), "denom": "d1", "w": M{"seq": seq, "from": from, "to": to, "denom": denom, "amt": amt},
						"offset": int64(0), "limit": int64(0), "reverse": false}
				}
			}
		}
		qs := []string{"Bridge", "Bridges", "NextL1Sequence", "LastFinalizedOutput", "OutputProposal", "OutputProposals", "OutputProposals", "BatchInfos", "TokenPairByL1Denom", "TokenPairByL2Denom", "TokenPairs", "Claimed", "Params"}
		return M{"type": "Query", "q": pick(r, qs), "b": b, "idx": int64(r.Intn(6)), "denom": pick(r, []string{"d1", "d2", "d3"}),
			"w":      M{"seq": int64(1 + r.Intn(6)), "from": pick(r, users), "to": pick(r, users), "denom": pick(r, []string{"d1", "d2"}), "amt": int64(1 + r.Intn(3))},
			"offset": int64(r.Intn(4)), "limit": int64(pick(r, []int{0, 1, 2, 3, 10})), "reverse": r.Intn(2) == 0}
	}
}

// Drive writes `runs` histories of `length` events each.
func Drive(out io.Writer, seed int64, runs, length int) (map[string]int, error) {
	enc := json.NewEncoder(out)
	stats := map[string]int{}
	scales := []*big.Int{big.NewInt(1), big.NewInt(1_000_000), new(big.Int).Lsh(big.NewInt(1), 62)}
	for run := 0; run < runs; run++ {
		rng := rand.New(rand.NewSource(seed*1000003 + int64(run)))
		conc := NewConc(seed*31+int64(run), scales[run%len(scales)])
		cfg := DriveCfg()
		if run%len(scales) == 2 {
			cfg.Amt0 = 12 // at scale 2^62 only a handful of units exist below 2^64 per transfer
		}
		d := &driver{rng: rng, ch: NewChain(conc, cfg), wds: map[int64][]M{}, trees: map[string]int64{}, run: run}
		if err := enc.Encode(M{"reset": true, "run": int64(run), "scale": conc.U.String(), "seed": conc.Seed, "state": d.st()}); err != nil {
			return nil, err
		}
		// every sixth run starts with a LONG output log on its first bridge (more outputs than one page of the SDK's default
		// pagination), restarts from genesis and extends the log - histories the random phase never reaches
		var scripted []M
		if run%6 == 5 {
			scripted = append(scripted, M{"type": "CreateBridge", "signer": "u1", "cfg": M{"proposer": "p1", "challenger": "c1", "period": int64(2), "interval": int64(2), "startH": int64(1),
				"oracle": false, "meta": M{"cls": "none", "chs": []any{}}, "bsub": "s1", "bchain": "INITIA"}})
			for k := int64(1); k <= 104; k++ {
				scripted = append(scripted, M{"type": "ProposeOutput", "signer": "p1", "b": int64(1), "idx": k, "l2bn": k, "bad": "none", "root": M{"v": int64(0), "t": "TJ", "h": "h" + fmt.Sprint(k%3)}})
			}
			scripted = append(scripted, M{"type": "ExportImport"}, M{"type": "ProposeOutput", "signer": "p1", "b": int64(1), "idx": int64(105), "l2bn": int64(105), "bad": "none", "root": M{"v": int64(0), "t": "TJ", "h": "h1"}},
				M{"type": "Query", "q": "OutputProposals", "b": int64(1), "idx": int64(0), "denom": "d1", "w": M{"seq": int64(1), "from": "u1", "to": "u2", "denom": "d1", "amt": int64(1)}, "offset": int64(0), "limit": int64(0), "reverse": false},
				M{"type": "DeleteOutput", "signer": "c1", "b": int64(1), "idx": int64(103)})
		}
		for i := 0; i < length+len(scripted); i++ {
			var e M
			if i < len(scripted) {
				e = scripted[i]
			} else {
				e = d.next()
			}
			if absx.Str(e["type"]) == "FinalizeTokenWithdrawal" {
				cb := d.ch.BuildClaim(e)
				e["root"] = cb.RootName
				e["proofOK"] = cb.ProofOK
			}
			o := d.ch.Exec(e)
			stats[absx.Str(e["type"])]++
			if o.OK {
				stats["ok:"+absx.Str(e["type"])]++
			}
			resp := o.Resp
			if resp == nil {
				resp = M{"none": true}
			}
			if err := enc.Encode(M{"run": int64(run), "i": int64(i), "e": e, "ok": o.OK, "resp": resp, "err": o.Err, "state": d.st()}); err != nil {
				return nil, err
			}
		}
	}
	return stats, nil
}
