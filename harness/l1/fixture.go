// Package l1 binds the TLA+ module L1Host to the real x/ophost keeper: a chain fixture that executes
// messages the way baseapp does, a concretiser from abstract events to real messages, and the
// projection of the real store back to the abstract state record.
package l1

import (
	"context"
	"encoding/binary"
	"fmt"
	"math"
	"sort"
	"time"

	abci "github.com/cometbft/cometbft/abci/types"
	tmproto "github.com/cometbft/cometbft/proto/tendermint/types"

	"cosmossdk.io/core/address"
	"cosmossdk.io/log"
	"cosmossdk.io/store"
	"cosmossdk.io/store/metrics"
	storetypes "cosmossdk.io/store/types"
	"cosmossdk.io/x/tx/signing"

	dbm "github.com/cosmos/cosmos-db"
	"github.com/cosmos/cosmos-sdk/baseapp"
	"github.com/cosmos/cosmos-sdk/codec"
	codecaddress "github.com/cosmos/cosmos-sdk/codec/address"
	codectypes "github.com/cosmos/cosmos-sdk/codec/types"
	"github.com/cosmos/cosmos-sdk/runtime"
	"github.com/cosmos/cosmos-sdk/std"
	sdk "github.com/cosmos/cosmos-sdk/types"
	"github.com/cosmos/cosmos-sdk/types/module"
	"github.com/cosmos/cosmos-sdk/x/auth"
	authcodec "github.com/cosmos/cosmos-sdk/x/auth/codec"
	authkeeper "github.com/cosmos/cosmos-sdk/x/auth/keeper"
	authtypes "github.com/cosmos/cosmos-sdk/x/auth/types"
	"github.com/cosmos/cosmos-sdk/x/bank"
	bankkeeper "github.com/cosmos/cosmos-sdk/x/bank/keeper"
	banktypes "github.com/cosmos/cosmos-sdk/x/bank/types"
	distributiontypes "github.com/cosmos/cosmos-sdk/x/distribution/types"
	govtypes "github.com/cosmos/cosmos-sdk/x/gov/types"
	"github.com/cosmos/gogoproto/proto"

	ophost "github.com/initia-labs/OPinit/x/ophost"
	ophostkeeper "github.com/initia-labs/OPinit/x/ophost/keeper"
	ophosttypes "github.com/initia-labs/OPinit/x/ophost/types"
	"github.com/initia-labs/OPinit/x/ophost/types/hook"
)

var moduleBasics = module.NewBasicManager(auth.AppModuleBasic{}, bank.AppModuleBasic{}, ophost.AppModuleBasic{})

const permStoreKey = "verifibcperm"

// BaseTime is tick 0 of the abstract clock.  One tick is TickMs milliseconds: 500 by default (the code compares
// whole seconds, so the half-second grain exposes the rounding), or 500 * 2^33 (about 136 years) in the
// "window" family, where two ticks are close to the largest representable time.Duration.
var BaseTime = time.Date(2024, time.March, 1, 12, 0, 0, 0, time.UTC)
var TickMs int64 = 500

func tickDuration() time.Duration { return time.Duration(TickMs) * time.Millisecond }

// AddTicks adds n ticks to t one tick at a time (n ticks may exceed the range of a single time.Duration).
func AddTicks(t time.Time, n int64) time.Time {
	for ; n > 0; n-- {
		t = t.Add(tickDuration())
	}
	for ; n < 0; n++ {
		t = t.Add(-tickDuration())
	}
	return t
}
func TickTime(t int64) time.Time { return AddTicks(BaseTime, t) }
func TimeTick(t time.Time) int64 { return (t.UnixMilli() - BaseTime.UnixMilli()) / TickMs }

// TicksDuration converts a tick count to a time.Duration; it panics if the value is not representable.
func TicksDuration(n int64) time.Duration {
	d := time.Duration(n) * tickDuration()
	if n != 0 && d/time.Duration(n) != tickDuration() {
		// more ticks than a time.Duration holds: the largest duration there is ("never finalizes").  At every whole tick the
		// clamped value and the exact one order the same way against the clock, which is all the specification uses.
		if n > 0 {
			return time.Duration(math.MaxInt64)
		}
		panic("tick count not representable as time.Duration")
	}
	return d
}

// Fixture is one L1 chain instance (stores + keepers).  Chain values share a fixture and differ in
// the sdk.Context (store branch, block header) they run on.
type Fixture struct {
	Cdc       codec.Codec
	Registry  codectypes.InterfaceRegistry
	AC        address.Codec
	Account   authkeeper.AccountKeeper
	Bank      bankkeeper.BaseKeeper
	Host      *ophostkeeper.Keeper
	Querier   ophostkeeper.Querier
	Router    *baseapp.MsgServiceRouter
	Perm      *permKeeper
	Keys      map[string]*storetypes.KVStoreKey
	MS        storetypes.CommitMultiStore
	Authority string
	LastRaw   string // raw record of the last delivery (result, error text, response bytes, ordered events) for determinism checks
}

type communityPool struct{ bank bankkeeper.BaseKeeper }

// FundCommunityPool really moves the fee into the distribution module account (the repository's test
// mock moves nothing).
func (c communityPool) FundCommunityPool(ctx context.Context, amount sdk.Coins, sender sdk.AccAddress) error {
	return c.bank.SendCoinsFromAccountToModule(ctx, sender, distributiontypes.ModuleName, amount)
}

// permKeeper is an in-store implementation of the hook's ChannelKeeper and PermKeeper interfaces
// (the real ones live in ibc-go / initia, which are not part of this repository).
type permKeeper struct{ key *storetypes.KVStoreKey }

func chanKey(port, ch string) []byte  { return []byte("chan/" + port + "/" + ch) }
func adminKey(port, ch string) []byte { return []byte("perm/" + port + "/" + ch) }

func (p *permKeeper) GetNextSequenceSend(ctx sdk.Context, portID, channelID string) (uint64, bool) {
	bz := ctx.KVStore(p.key).Get(chanKey(portID, channelID))
	if bz == nil {
		return 0, false
	}
	return binary.BigEndian.Uint64(bz), true
}
func (p *permKeeper) SetNextSequenceSend(ctx sdk.Context, portID, channelID string, seq uint64) {
	bz := make([]byte, 8)
	binary.BigEndian.PutUint64(bz, seq)
	ctx.KVStore(p.key).Set(chanKey(portID, channelID), bz)
}
func (p *permKeeper) IsTaken(ctx context.Context, portID, channelID string) (bool, error) {
	return sdk.UnwrapSDKContext(ctx).KVStore(p.key).Has(adminKey(portID, channelID)), nil
}
func (p *permKeeper) SetAdmin(ctx context.Context, portID, channelID string, admin sdk.AccAddress) error {
	sdk.UnwrapSDKContext(ctx).KVStore(p.key).Set(adminKey(portID, channelID), admin)
	return nil
}
func (p *permKeeper) HasAdminPermission(ctx context.Context, portID, channelID string, admin sdk.AccAddress) (bool, error) {
	bz := sdk.UnwrapSDKContext(ctx).KVStore(p.key).Get(adminKey(portID, channelID))
	return bz != nil && string(bz) == string(admin), nil
}
func (p *permKeeper) Admin(ctx sdk.Context, portID, channelID string) []byte {
	return ctx.KVStore(p.key).Get(adminKey(portID, channelID))
}

func makeCodec() (codec.Codec, codectypes.InterfaceRegistry) {
	reg, err := codectypes.NewInterfaceRegistryWithOptions(codectypes.InterfaceRegistryOptions{
		ProtoFiles: proto.HybridResolver,
		SigningOptions: signing.Options{
			AddressCodec:          codecaddress.NewBech32Codec(sdk.GetConfig().GetBech32AccountAddrPrefix()),
			ValidatorAddressCodec: codecaddress.NewBech32Codec(sdk.GetConfig().GetBech32ValidatorAddrPrefix()),
		},
	})
	if err != nil {
		panic(err)
	}
	cdc := codec.NewProtoCodec(reg)
	std.RegisterInterfaces(reg)
	moduleBasics.RegisterInterfaces(reg)
	return cdc, reg
}

// NewFixture builds a fresh L1 chain at tick 0, height 1.
func NewFixture() (*Fixture, sdk.Context) {
	db := dbm.NewMemDB()
	keys := storetypes.NewKVStoreKeys(authtypes.StoreKey, banktypes.StoreKey, ophosttypes.StoreKey, permStoreKey)
	ms := store.NewCommitMultiStore(db, log.NewNopLogger(), metrics.NewNoOpMetrics())
	for _, k := range keys {
		ms.MountStoreWithDB(k, storetypes.StoreTypeIAVL, db)
	}
	if err := ms.LoadLatestVersion(); err != nil {
		panic(err)
	}
	ctx := sdk.NewContext(ms, tmproto.Header{Height: 1, Time: TickTime(0), ChainID: "l1-verif"}, false, log.NewNopLogger())

	cdc, reg := makeCodec()
	maccPerms := map[string][]string{
		authtypes.FeeCollectorName:   nil,
		distributiontypes.ModuleName: nil,
		ophosttypes.ModuleName:       {authtypes.Burner, authtypes.Minter},
		authtypes.Minter:             {authtypes.Minter, authtypes.Burner},
	}
	ac := authcodec.NewBech32Codec(sdk.GetConfig().GetBech32AccountAddrPrefix())
	authority := authtypes.NewModuleAddress(govtypes.ModuleName).String()
	ak := authkeeper.NewAccountKeeper(cdc, runtime.NewKVStoreService(keys[authtypes.StoreKey]), authtypes.ProtoBaseAccount,
		maccPerms, ac, sdk.GetConfig().GetBech32AccountAddrPrefix(), authority)
	if err := ak.Params.Set(ctx, authtypes.DefaultParams()); err != nil {
		panic(err)
	}
	blocked := map[string]bool{}
	for acc := range maccPerms {
		blocked[authtypes.NewModuleAddress(acc).String()] = true
	}
	bk := bankkeeper.NewBaseKeeper(cdc, runtime.NewKVStoreService(keys[banktypes.StoreKey]), ak, blocked, authority, log.NewNopLogger())
	if err := bk.SetParams(ctx, banktypes.DefaultParams()); err != nil {
		panic(err)
	}

	// module accounts exist from genesis on a running chain
	maccNames := make([]string, 0, len(maccPerms))
	for name := range maccPerms {
		maccNames = append(maccNames, name)
	}
	sort.Strings(maccNames)
	for _, name := range maccNames {
		ak.GetModuleAccount(ctx, name)
	}

	router := baseapp.NewMsgServiceRouter()
	router.SetInterfaceRegistry(reg)
	banktypes.RegisterMsgServer(router, bankkeeper.NewMsgServerImpl(bk))

	perm := &permKeeper{key: keys[permStoreKey]}
	// as an application wires it: the repository's hook multiplexer around the permissioned-channel hook
	bridgeHook := ophosttypes.NewBridgeHooks(hook.NewBridgeHook(perm, perm, ac))
	hk := ophostkeeper.NewKeeper(cdc, runtime.NewKVStoreService(keys[ophosttypes.StoreKey]), ak, bk, communityPool{bk}, bridgeHook, authority)
	if err := hk.SetParams(ctx, ophosttypes.DefaultParams()); err != nil {
		panic(err)
	}
	ophosttypes.RegisterMsgServer(router, ophostkeeper.NewMsgServerImpl(*hk))

	return &Fixture{Cdc: cdc, Registry: reg, AC: ac, Account: ak, Bank: bk, Host: hk, Querier: ophostkeeper.NewQuerier(*hk),
		Router: router, Perm: perm, Keys: keys, MS: ms, Authority: authority}, ctx
}

// Result of delivering one message.
type Result struct {
	OK     bool
	Err    error
	Panic  any
	Resp   proto.Message
	Events []abci.Event
}

func (r Result) ErrString() string {
	if r.Panic != nil {
		return fmt.Sprintf("panic: %v", r.Panic)
	}
	if r.Err != nil {
		return r.Err.Error()
	}
	return ""
}

// Deliver executes one message the way baseapp's runMsgs does: protobuf round trip, routing through
// the MsgServiceRouter, execution on a branch of the store with a fresh event manager and panic
// recovery; the branch is written back only on success.
func Deliver(f *Fixture, ctx sdk.Context, msg sdk.Msg) (res Result) {
	defer func() {
		raw := fmt.Sprintf("ok=%v|err=%s|", res.OK, res.ErrString())
		if res.Resp != nil {
			if bz, err := proto.Marshal(res.Resp); err == nil {
				raw += fmt.Sprintf("resp=%x|", bz)
			}
		}
		for _, ev := range res.Events {
			raw += ev.Type + "{"
			for _, a := range ev.Attributes {
				raw += a.Key + "=" + a.Value + ";"
			}
			raw += "}"
		}
		f.LastRaw = raw
	}()
	bz, err := f.Cdc.MarshalInterface(msg)
	if err != nil {
		return Result{Err: fmt.Errorf("marshal: %w", err)}
	}
	var decoded sdk.Msg
	if err := f.Cdc.UnmarshalInterface(bz, &decoded); err != nil {
		return Result{Err: fmt.Errorf("unmarshal: %w", err)}
	}
	handler := f.Router.Handler(decoded)
	if handler == nil {
		return Result{Err: fmt.Errorf("no handler for %s", sdk.MsgTypeURL(decoded))}
	}
	cacheCtx, write := ctx.CacheContext()
	cacheCtx = cacheCtx.WithEventManager(sdk.NewEventManager())
	defer func() {
		if r := recover(); r != nil {
			res = Result{Panic: r}
		}
	}()
	out, err := handler(cacheCtx, decoded)
	if err != nil {
		return Result{Err: err}
	}
	write()
	var resp proto.Message
	if len(out.MsgResponses) == 1 {
		var m proto.Message
		if err := f.Cdc.UnpackAny(out.MsgResponses[0], &m); err == nil {
			resp = m
		} else if cached, ok := out.MsgResponses[0].GetCachedValue().(proto.Message); ok {
			resp = cached
		}
	}
	return Result{OK: true, Resp: resp, Events: out.Events}
}

// Mint funds an account from the test minter module (setup only, outside the modelled history).
func (f *Fixture) Mint(ctx sdk.Context, to sdk.AccAddress, coins sdk.Coins) {
	if err := f.Bank.MintCoins(ctx, authtypes.Minter, coins); err != nil {
		panic(err)
	}
	if err := f.Bank.SendCoinsFromModuleToAccount(ctx, authtypes.Minter, to, coins); err != nil {
		panic(err)
	}
}
