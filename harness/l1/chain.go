package l1

import (
	"bytes"
	"encoding/hex"
	"fmt"
	"math/big"
	"sort"
	"strconv"
	"time"

	"cosmossdk.io/collections"
	"cosmossdk.io/math"
	abci "github.com/cometbft/cometbft/abci/types"
	sdk "github.com/cosmos/cosmos-sdk/types"
	"github.com/cosmos/cosmos-sdk/types/query"
	authtypes "github.com/cosmos/cosmos-sdk/x/auth/types"
	banktypes "github.com/cosmos/cosmos-sdk/x/bank/types"

	ophosttypes "github.com/initia-labs/OPinit/x/ophost/types"

	"verifharness/absx"
	"verifharness/fmtx"
)

type M = absx.M

const maxU64 = ^uint64(0)

// RunCfg are the constants of one run (the grids of the abstract state).
type RunCfg struct {
	BKeys    []string
	Accts    []string
	Denoms   []string
	Funded   []string
	Amt0     int64
	FeeDenom string
	Chans    []string
	MaxB     int64
	Devs     []string
	L2Top    int64 // when > 0: L2 block numbers n >= 2 of the model stand for MaxUint64 - (L2Top - n), so that the model's top value is the largest number the chain can store
}

// l2c / l2a: the order-preserving map between the model's L2 block numbers and the numbers sent to the chain (see RunCfg.L2Top).
func (ch *Chain) l2c(n int64) uint64 {
	if ch.Cfg.L2Top <= 0 || n < 1 || n > ch.Cfg.L2Top {
		return uint64(n)
	}
	if n == 1 {
		return 0 // the model's smallest number stands for L2 block 0 (a log may start there)
	}
	return maxU64 - uint64(ch.Cfg.L2Top-n)
}

func (ch *Chain) l2a(v uint64) int64 {
	if ch.Cfg.L2Top > 0 && v > maxU64-uint64(ch.Cfg.L2Top) {
		return ch.Cfg.L2Top - int64(maxU64-v)
	}
	if ch.Cfg.L2Top > 0 && v == 0 {
		return 1
	}
	return int64(v)
}

func DefaultRunCfg() RunCfg {
	return RunCfg{
		BKeys:  []string{"1", "2", "3"},
		Accts:  []string{"gov", "p1", "p2", "c1", "c2", "u1", "u2", "x", "esc1", "esc2", "esc3", "pool"},
		Denoms: []string{"d1", "d2"}, Funded: []string{"u1", "u2"}, Amt0: 4, FeeDenom: "d1",
		Chans: []string{"ch1", "ch2"}, MaxB: 2,
	}
}

// Chain is an L1 chain positioned at one state: a fixture plus the context (store branch + header).
type Chain struct {
	F          *Fixture
	Ctx        sdk.Context
	ClaimsKept bool // result of the last claims probe (genesis.go)
	C          *Conc
	Cfg        RunCfg
}

func NewChain(c *Conc, cfg RunCfg) *Chain {
	f, ctx := NewFixture()
	ch := &Chain{F: f, Ctx: ctx, C: c, Cfg: cfg}
	for _, a := range cfg.Accts {
		c.Addr(a)
	}
	var bridges []uint64
	for _, k := range cfg.BKeys {
		b, _ := strconv.ParseUint(k, 10, 64)
		bridges = append(bridges, b)
	}
	c.RegisterL2Denoms(bridges, cfg.Denoms)
	for _, a := range cfg.Funded {
		var coins sdk.Coins
		for _, d := range cfg.Denoms {
			coins = coins.Add(sdk.NewCoin(c.Denom(d), math.NewIntFromBigInt(c.Amount(cfg.Amt0))))
		}
		f.Mint(ctx, c.AddrBytes(a), coins)
	}
	return ch
}

// Fork returns a chain on a branch of the store; the branch is never written back.
func (ch *Chain) Fork() *Chain {
	cc, _ := ch.Ctx.CacheContext()
	return &Chain{F: ch.F, Ctx: cc, C: ch.C, Cfg: ch.Cfg}
}

// Outcome of one abstract event on the real chain.
type Outcome struct {
	OK   bool
	Resp M
	Err  string
}

func coin(c *Conc, denom string, units int64) sdk.Coin {
	// built without validation so that malformed denoms / negative amounts reach the handler's own checks
	return sdk.Coin{Denom: c.Denom(denom), Amount: math.NewIntFromBigInt(c.Amount(units))}
}

func chainType(s string) ophosttypes.BatchInfo_ChainType {
	if v, ok := ophosttypes.BatchInfo_ChainType_value["CHAIN_TYPE_"+s]; ok {
		return ophosttypes.BatchInfo_ChainType(v)
	}
	return ophosttypes.BatchInfo_CHAIN_TYPE_UNSPECIFIED
}

func (ch *Chain) bridgeConfig(g M) ophosttypes.BridgeConfig {
	c := ch.C
	return ophosttypes.BridgeConfig{
		Challenger:            c.Addr(absx.Str(g["challenger"])),
		Proposer:              c.Addr(absx.Str(g["proposer"])),
		BatchInfo:             ophosttypes.BatchInfo{Submitter: c.submitter(absx.Str(g["bsub"])), ChainType: chainType(absx.Str(g["bchain"]))},
		SubmissionInterval:    TicksDuration(absx.Int(g["interval"])),
		FinalizationPeriod:    TicksDuration(absx.Int(g["period"])),
		SubmissionStartHeight: uint64(absx.Int(g["startH"])),
		OracleEnabled:         absx.Bool(g["oracle"]),
		Metadata:              c.Meta(absx.Map(g["meta"])),
	}
}

func (c *Conc) submitter(s string) string {
	if s == "" {
		return ""
	}
	v := "submitter-" + s + "-" + hex.EncodeToString(c.h("sub", s)[:3])
	c.addrRev["sub:"+v] = s
	return v
}
func (c *Conc) submitterName(v string) string {
	if n, ok := c.addrRev["sub:"+v]; ok {
		return n
	}
	if v == "" {
		return ""
	}
	return "?" + v
}

func attr(evs []abci.Event, ty, key string) (string, int) {
	n := 0
	val := ""
	for _, e := range evs {
		if e.Type != ty {
			continue
		}
		n++
		for _, a := range e.Attributes {
			if a.Key == key {
				val = a.Value
			}
		}
	}
	return val, n
}

func atoi(s string) any {
	if v, err := strconv.ParseInt(s, 10, 64); err == nil {
		return v
	}
	return "?" + s
}

// ClaimBytes builds the byte-level claim of a FinalizeTokenWithdrawal event and evaluates, with the
// independent implementation of the formats, the two facts the specification uses.
type ClaimBytes struct {
	StorageRoot, BlockHash, Version []byte
	Proofs                          [][]byte
	RootName                        M
	ProofOK                         bool
}

func (ch *Chain) BuildClaim(e M) ClaimBytes {
	c := ch.C
	tree := absx.Map(e["tree"])
	tid := absx.Str(tree["id"])
	{
		var ls []M
		for _, l := range absx.List(tree["leaves"]) {
			ls = append(ls, absx.Map(l))
		}
		c.Trees[tid] = ls
	}
	leaves := c.TreeLeaves(tid)
	sroot := fmtx.TreeRoot(leaves)
	pos := int(absx.Int(e["pos"]))
	var proofs [][]byte
	if pos >= 1 && pos <= len(leaves) {
		proofs = fmtx.ProofFor(leaves, pos-1)
	}
	switch absx.Str(e["mut"]) {
	case "none":
	case "flip":
		if len(proofs) > 0 {
			proofs[0] = append([]byte{}, proofs[0]...)
			proofs[0][int(c.h("flip")[0])%32] ^= 1 << (c.h("flip")[1] % 8)
		} else {
			proofs = append(proofs, c.h("flip-extra"))
		}
	case "drop":
		if len(proofs) > 0 {
			proofs = proofs[:len(proofs)-1]
		} else {
			proofs = append(proofs, c.h("drop-extra"))
		}
	case "dup":
		if len(proofs) > 0 {
			proofs = append(proofs, proofs[len(proofs)-1])
		} else {
			proofs = append(proofs, sroot)
		}
	case "ext":
		proofs = append(proofs, c.h("ext"))
	case "zeroext": // an all-zero element appended
		proofs = append(proofs, make([]byte, 32))
	case "zeropre": // an all-zero element prepended
		proofs = append([][]byte{make([]byte, 32)}, proofs...)
	case "len31":
		proofs = append(proofs, c.h("short")[:31])
	default:
		panic("unknown mutation " + absx.Str(e["mut"]))
	}
	v := byte(absx.Int(e["v"]))
	bh := c.BlockHash(absx.Str(e["h"]))
	// the root record [v,t,h] this claim hashes to, interned through the same path as proposals
	rootName := M{"v": int64(v), "t": tid, "h": absx.Str(e["h"])}
	c.Root(rootName)
	// independent evaluation of "the claimed leaf hashes up to the storage root through the proof"
	w := absx.Map(e["w"])
	wl := M{"b": e["b"], "seq": w["seq"], "from": w["from"], "to": w["to"], "denom": w["denom"], "amt": w["amt"]}
	ok := true
	for _, p := range proofs {
		if len(p) != 32 {
			ok = false
		}
	}
	if ok && !c.Amount(absx.Int(w["amt"])).IsUint64() {
		ok = false // the leaf format commits to a 64-bit amount: a larger claimed amount has no leaf at all
	}
	if ok {
		ok = bytes.Equal(fmtx.RootFromProof(c.LeafHash(wl), proofs), sroot)
	}
	return ClaimBytes{StorageRoot: sroot, BlockHash: bh, Version: []byte{v}, Proofs: proofs, RootName: rootName, ProofOK: ok}
}

// ModelError reports a disagreement between the specification's abstraction and the independent
// evaluator (never a verdict about the code).
type ModelError struct{ Msg string }

func (m ModelError) Error() string { return m.Msg }

// Exec runs one abstract event on the real chain and commits it on success.
func (ch *Chain) Exec(e M) Outcome {
	c := ch.C
	f := ch.F
	ty := absx.Str(e["type"])
	f.LastRaw = ""
	signer := ""
	if s, ok := e["signer"]; ok {
		signer = c.Addr(absx.Str(s))
	}
	b := func() uint64 { return uint64(absx.Int(e["b"])) }
	deliver := func(msg sdk.Msg) Result { return Deliver(f, ch.Ctx, msg) }
	fail := func(r Result) Outcome { return Outcome{OK: false, Err: r.ErrString()} }
	var lastEvents []abci.Event
	deliver = func(msg sdk.Msg) Result { r := Deliver(f, ch.Ctx, msg); lastEvents = r.Events; return r }
	updEvent := map[string]string{"UpdateProposer": ophosttypes.EventTypeUpdateProposer, "UpdateChallenger": ophosttypes.EventTypeUpdateChallenger,
		"UpdateBatchInfo": ophosttypes.EventTypeUpdateBatchInfo, "UpdateMetadata": ophosttypes.EventTypeUpdateMetadata}
	updResp := func(idx, l2bn uint64) M {
		n := ch.l2a(l2bn)
		if idx == 0 { // no finalized output: the zero here is "none", not the L2 block 0
			n = 0
		}
		return M{"idx": int64(idx), "l2bn": n, "evt": ch.eventRec(lastEvents, updEvent[ty])}
	}

	switch ty {
	case "CreateBridge":
		r := deliver(&ophosttypes.MsgCreateBridge{Creator: signer, Config: ch.bridgeConfig(absx.Map(e["cfg"]))})
		if !r.OK {
			return fail(r)
		}
		return Outcome{OK: true, Resp: M{"bridge": int64(r.Resp.(*ophosttypes.MsgCreateBridgeResponse).BridgeId), "evt": ch.eventRec(r.Events, ophosttypes.EventTypeCreateBridge)}}
	case "ProposeOutput":
		if tr, ok := e["tree"]; ok { // the proposer's tree travels with the event when it is not one of the run's fixed tables
			tm := absx.Map(tr)
			var ls []M
			for _, l := range absx.List(tm["leaves"]) {
				ls = append(ls, absx.Map(l))
			}
			c.Trees[absx.Str(tm["id"])] = ls
		}
		root := c.Root(absx.Map(e["root"]))
		if absx.Str(e["bad"]) == "rootlen" {
			root = root[:31]
		}
		r := deliver(&ophosttypes.MsgProposeOutput{Proposer: signer, BridgeId: b(), OutputIndex: uint64(absx.Int(e["idx"])), L2BlockNumber: ch.l2c(absx.Int(e["l2bn"])), OutputRoot: root})
		if !r.OK {
			return fail(r)
		}
		v, _ := attr(r.Events, ophosttypes.EventTypeProposeOutput, ophosttypes.AttributeKeyOutputIndex)
		return Outcome{OK: true, Resp: M{"idx": atoi(v), "evt": ch.eventRec(r.Events, ophosttypes.EventTypeProposeOutput)}}
	case "DeleteOutput":
		r := deliver(&ophosttypes.MsgDeleteOutput{Challenger: signer, BridgeId: b(), OutputIndex: uint64(absx.Int(e["idx"]))})
		if !r.OK {
			return fail(r)
		}
		v, _ := attr(r.Events, ophosttypes.EventTypeDeleteOutput, ophosttypes.AttributeKeyOutputIndex)
		return Outcome{OK: true, Resp: M{"idx": atoi(v), "evt": ch.eventRec(r.Events, ophosttypes.EventTypeDeleteOutput)}}
	case "InitiateTokenDeposit":
		data := c.Data(absx.Str(e["data"]))
		r := deliver(&ophosttypes.MsgInitiateTokenDeposit{Sender: signer, BridgeId: b(), To: c.Addr(absx.Str(e["to"])),
			Amount: coin(c, absx.Str(e["denom"]), absx.Int(e["amt"])), Data: data})
		if !r.OK {
			return fail(r)
		}
		seq := r.Resp.(*ophosttypes.MsgInitiateTokenDepositResponse).Sequence
		return Outcome{OK: true, Resp: M{"seq": int64(seq), "ev": ch.depositEvent(r.Events)}}
	case "FinalizeTokenWithdrawal":
		cb := ch.BuildClaim(e)
		if want, ok := e["proofOK"]; ok && absx.Bool(want) != cb.ProofOK {
			panic(ModelError{fmt.Sprintf("specification says proofOK=%v, independent evaluator says %v for %s", want, cb.ProofOK, absx.Canon(e))})
		}
		w := absx.Map(e["w"])
		switch absx.Str(e["bad"]) { // byte fields of a wrong length; the longer ones keep the right bytes as a prefix
		case "version":
			cb.Version = []byte{0, 0}
		case "hash33":
			cb.BlockHash = append(append([]byte{}, cb.BlockHash...), byte(ch.C.Seed))
		case "hash31":
			cb.BlockHash = append([]byte{}, cb.BlockHash[:31]...)
		case "root33":
			cb.StorageRoot = append(append([]byte{}, cb.StorageRoot...), 0x00)
		case "proof33":
			if len(cb.Proofs) > 0 {
				cb.Proofs[0] = append(append([]byte{}, cb.Proofs[0]...), 0x00)
			} else {
				cb.Version = []byte{0, 0}
			}
		}
		r := deliver(&ophosttypes.MsgFinalizeTokenWithdrawal{Sender: signer, BridgeId: b(), OutputIndex: uint64(absx.Int(e["out"])),
			WithdrawalProofs: cb.Proofs, From: c.Addr(absx.Str(w["from"])), To: c.Addr(absx.Str(w["to"])), Sequence: uint64(absx.Int(w["seq"])),
			Amount: coin(c, absx.Str(w["denom"]), absx.Int(w["amt"])), Version: cb.Version, StorageRoot: cb.StorageRoot, LastBlockHash: cb.BlockHash})
		if !r.OK {
			return fail(r)
		}
		return Outcome{OK: true, Resp: M{"ev": ch.withdrawalEvent(r.Events)}}
	case "UpdateProposer":
		r := deliver(&ophosttypes.MsgUpdateProposer{Authority: signer, BridgeId: b(), NewProposer: c.Addr(absx.Str(e["new"]))})
		if !r.OK {
			return fail(r)
		}
		x := r.Resp.(*ophosttypes.MsgUpdateProposerResponse)
		return Outcome{OK: true, Resp: updResp(x.OutputIndex, x.L2BlockNumber)}
	case "UpdateChallenger":
		r := deliver(&ophosttypes.MsgUpdateChallenger{Authority: signer, BridgeId: b(), Challenger: c.Addr(absx.Str(e["new"]))})
		if !r.OK {
			return fail(r)
		}
		x := r.Resp.(*ophosttypes.MsgUpdateChallengerResponse)
		return Outcome{OK: true, Resp: updResp(x.OutputIndex, x.L2BlockNumber)}
	case "UpdateBatchInfo":
		r := deliver(&ophosttypes.MsgUpdateBatchInfo{Authority: signer, BridgeId: b(),
			NewBatchInfo: ophosttypes.BatchInfo{Submitter: c.submitter(absx.Str(e["bsub"])), ChainType: chainType(absx.Str(e["bchain"]))}})
		if !r.OK {
			return fail(r)
		}
		x := r.Resp.(*ophosttypes.MsgUpdateBatchInfoResponse)
		return Outcome{OK: true, Resp: updResp(x.OutputIndex, x.L2BlockNumber)}
	case "UpdateOracleConfig":
		r := deliver(&ophosttypes.MsgUpdateOracleConfig{Authority: signer, BridgeId: b(), OracleEnabled: absx.Bool(e["flag"])})
		if !r.OK {
			return fail(r)
		}
		v, _ := attr(r.Events, ophosttypes.EventTypeUpdateOracle, ophosttypes.AttributeKeyOracleEnabled)
		return Outcome{OK: true, Resp: M{"flag": v == "true", "evt": ch.eventRec(r.Events, ophosttypes.EventTypeUpdateOracle)}}
	case "UpdateMetadata":
		r := deliver(&ophosttypes.MsgUpdateMetadata{Authority: signer, BridgeId: b(), Metadata: c.Meta(absx.Map(e["meta"]))})
		if !r.OK {
			return fail(r)
		}
		x := r.Resp.(*ophosttypes.MsgUpdateMetadataResponse)
		return Outcome{OK: true, Resp: updResp(x.OutputIndex, x.L2BlockNumber)}
	case "UpdateParams":
		fee := sdk.Coins{}
		if n := absx.Int(e["fee"]); n != 0 {
			fee = sdk.Coins{coin(c, ch.Cfg.FeeDenom, n)}
		}
		r := deliver(&ophosttypes.MsgUpdateParams{Authority: signer, Params: &ophosttypes.Params{RegistrationFee: fee}})
		if !r.OK {
			return fail(r)
		}
		return Outcome{OK: true, Resp: M{"fee": absx.Int(e["fee"])}}
	case "RecordBatch":
		bz := []byte("batch")
		if absx.Str(e["bad"]) == "emptyBytes" {
			bz = nil
		}
		r := deliver(&ophosttypes.MsgRecordBatch{Submitter: signer, BridgeId: b(), BatchBytes: bz})
		if !r.OK {
			return fail(r)
		}
		v, _ := attr(r.Events, ophosttypes.EventTypeRecordBatch, ophosttypes.AttributeKeySubmitter)
		return Outcome{OK: true, Resp: M{"submitter": c.AddrName(v)}}
	case "BankSend":
		r := deliver(&banktypes.MsgSend{FromAddress: signer, ToAddress: c.Addr(absx.Str(e["to"])), Amount: sdk.Coins{coin(c, absx.Str(e["denom"]), absx.Int(e["amt"]))}})
		if !r.OK {
			return fail(r)
		}
		return Outcome{OK: true, Resp: M{"amt": absx.Int(e["amt"])}}
	case "AdvanceBlock":
		dt := absx.Int(e["dt"])
		if dt < 0 {
			return Outcome{OK: false, Err: "time goes backwards"}
		}
		hdr := ch.Ctx.BlockHeader()
		hdr.Height++
		hdr.Time = AddTicks(hdr.Time, dt)
		ch.Ctx = ch.Ctx.WithBlockHeader(hdr)
		return Outcome{OK: true, Resp: M{"now": TimeTick(hdr.Time)}}
	case "ChannelOpen", "ChannelSend", "ChannelTake":
		p, id := ChanIDs(absx.Str(e["ch"]))
		seq, ok := f.Perm.GetNextSequenceSend(ch.Ctx, p, id)
		switch ty {
		case "ChannelOpen":
			if ok {
				return Outcome{OK: false, Err: "channel exists"}
			}
			f.Perm.SetNextSequenceSend(ch.Ctx, p, id, 1)
		case "ChannelSend":
			if !ok || seq >= 3 {
				return Outcome{OK: false, Err: "no channel / bound"}
			}
			f.Perm.SetNextSequenceSend(ch.Ctx, p, id, seq+1)
		case "ChannelTake":
			if taken, _ := f.Perm.IsTaken(ch.Ctx, p, id); taken {
				return Outcome{OK: false, Err: "taken"}
			}
			_ = f.Perm.SetAdmin(ch.Ctx, p, id, c.AddrBytes(absx.Str(e["who"])))
		}
		return Outcome{OK: true, Resp: M{"ch": absx.Str(e["ch"])}}
	case "Query":
		return ch.query(e)
	case "InitRaw":
		if !ch.InitRaw(absx.Int(e["period"])) {
			return Outcome{OK: false, Err: "InitGenesis refused the genesis"}
		}
		return Outcome{OK: true, Resp: M{"accepted": true}}
	case "ExportImport":
		same, err := ch.ExportImport()
		if err != nil {
			return Outcome{OK: false, Err: err.Error()}
		}
		return Outcome{OK: true, Resp: M{"same": same, "claimsKept": ch.ClaimsKept}}
	}
	panic("unknown event type " + ty)
}

// eventRec renders the single event of type ty as a record of abstract values (attribute keys shortened, addresses /
// denoms / roots mapped back to their names); {"count": n} when the event is not emitted exactly once.
func (ch *Chain) eventRec(evs []abci.Event, ty string) M {
	c := ch.C
	var found []abci.Event
	for _, e := range evs {
		if e.Type == ty {
			found = append(found, e)
		}
	}
	if len(found) != 1 {
		return M{"count": int64(len(found))}
	}
	short := map[string]string{ophosttypes.AttributeKeyBridgeId: "bridge", ophosttypes.AttributeKeyOutputIndex: "idx", ophosttypes.AttributeKeyL2BlockNumber: "l2bn",
		ophosttypes.AttributeKeyOutputRoot: "root", ophosttypes.AttributeKeyProposer: "proposer", ophosttypes.AttributeKeyChallenger: "challenger", ophosttypes.AttributeKeyCreator: "creator",
		ophosttypes.AttributeKeyBatchChainType: "bchain", ophosttypes.AttributeKeyBatchSubmitter: "bsub", ophosttypes.AttributeKeyOracleEnabled: "oracle",
		ophosttypes.AttributeKeyFinalizedOutputIndex: "fidx", ophosttypes.AttributeKeyFinalizedL2BlockNumber: "fl2bn", ophosttypes.AttributeKeySubmitter: "submitter"}
	out := M{}
	for _, a := range found[0].Attributes {
		k, ok := short[a.Key]
		if !ok {
			if a.Key == "msg_index" {
				continue
			}
			out["?"+a.Key] = a.Value
			continue
		}
		switch k {
		case "l2bn", "fl2bn":
			if n, err := strconv.ParseUint(a.Value, 10, 64); err == nil {
				out[k] = ch.l2a(n)
			} else {
				out[k] = "?" + a.Value
			}
		case "bridge", "idx", "fidx":
			out[k] = atoi(a.Value)
		case "proposer", "challenger", "creator", "submitter":
			out[k] = c.AddrName(a.Value)
		case "bsub":
			out[k] = c.submitterName(a.Value)
		case "oracle":
			out[k] = a.Value == "true"
		case "root":
			bz, err := hex.DecodeString(a.Value)
			if err != nil {
				out[k] = "?" + a.Value
			} else {
				out[k] = c.RootName(bz)
			}
		default:
			out[k] = a.Value
		}
	}
	if fi, ok := out["fidx"]; ok && absx.Canon(fi) == absx.Canon(int64(0)) {
		if _, ok := out["fl2bn"]; ok {
			out["fl2bn"] = int64(0) // no finalized output: "none", not the L2 block 0
		}
	}
	return out
}

func (ch *Chain) depositEvent(evs []abci.Event) M {
	c := ch.C
	get := func(k string) string { v, _ := attr(evs, ophosttypes.EventTypeInitiateTokenDeposit, k); return v }
	_, n := attr(evs, ophosttypes.EventTypeInitiateTokenDeposit, ophosttypes.AttributeKeyBridgeId)
	if n != 1 {
		return M{"count": int64(n)}
	}
	amt, _ := new(big.Int).SetString(get(ophosttypes.AttributeKeyAmount), 10)
	if amt == nil {
		amt = big.NewInt(-1)
	}
	return M{"bridge": atoi(get(ophosttypes.AttributeKeyBridgeId)), "seq": atoi(get(ophosttypes.AttributeKeyL1Sequence)),
		"from": c.AddrName(get(ophosttypes.AttributeKeyFrom)), "to": c.AddrName(get(ophosttypes.AttributeKeyTo)),
		"l1denom": c.DenomName(get(ophosttypes.AttributeKeyL1Denom)), "l2denom": c.DenomName(get(ophosttypes.AttributeKeyL2Denom)),
		"amt": c.UnitsAny(amt), "data": c.DataName(get(ophosttypes.AttributeKeyData))}
}

func (ch *Chain) withdrawalEvent(evs []abci.Event) M {
	c := ch.C
	get := func(k string) string { v, _ := attr(evs, ophosttypes.EventTypeFinalizeTokenWithdrawal, k); return v }
	_, n := attr(evs, ophosttypes.EventTypeFinalizeTokenWithdrawal, ophosttypes.AttributeKeyBridgeId)
	if n != 1 {
		return M{"count": int64(n)}
	}
	amt, _ := new(big.Int).SetString(get(ophosttypes.AttributeKeyAmount), 10)
	if amt == nil {
		amt = big.NewInt(-1)
	}
	return M{"bridge": atoi(get(ophosttypes.AttributeKeyBridgeId)), "out": atoi(get(ophosttypes.AttributeKeyOutputIndex)), "seq": atoi(get(ophosttypes.AttributeKeyL2Sequence)),
		"from": c.AddrName(get(ophosttypes.AttributeKeyFrom)), "to": c.AddrName(get(ophosttypes.AttributeKeyTo)),
		"l1denom": c.DenomName(get(ophosttypes.AttributeKeyL1Denom)), "l2denom": c.DenomName(get(ophosttypes.AttributeKeyL2Denom)),
		"amt": c.UnitsAny(amt)}
}

// ---- projection ----------------------------------------------------------------------------------

func ticks(d time.Duration) any {
	if d == time.Duration(1<<63-1) { // the clamped "never" of TicksDuration: the smallest tick count that does not fit
		return int64(d/tickDuration()) + 1
	}
	if d%tickDuration() != 0 {
		return "?" + d.String()
	}
	return int64(d / tickDuration())
}

func (ch *Chain) outRec(o ophosttypes.Output) M {
	if o.IsEmpty() {
		return M{"root": M{"v": int64(0), "t": "", "h": ""}, "l2bn": int64(0), "t": int64(0), "h": int64(0), "empty": true}
	}
	return M{"root": ch.C.RootName(o.OutputRoot), "l2bn": ch.l2a(o.L2BlockNumber), "t": TimeTick(o.L1BlockTime), "h": int64(o.L1BlockNumber), "empty": false}
}

// Project reads the abstract state record out of the real stores.
func (ch *Chain) Project() M {
	c := ch.C
	f := ch.F
	ctx := ch.Ctx
	k := f.Host
	sec := int64(1) // ticks per second-granularity step of the finality comparison: 2 half-second ticks, or 1 when a tick is whole seconds
	if TickMs == 500 {
		sec = 2
	}
	st := M{"now": TimeTick(ctx.BlockTime()), "h": ctx.BlockHeight(), "cap": c.Cap(), "maxB": ch.Cfg.MaxB, "feeDenom": ch.Cfg.FeeDenom, "sec": sec}
	devs := M{}
	for _, d := range ch.Cfg.Devs {
		devs[d] = true
	}
	st["devs"] = devs
	nb, err := k.GetNextBridgeId(ctx)
	if err != nil {
		panic(err)
	}
	st["nextB"] = int64(nb)
	// registration fee
	fee := k.GetParams(ctx).RegistrationFee
	switch {
	case len(fee) == 0:
		st["fee"] = int64(0)
	case len(fee) == 1 && fee[0].Denom == c.Denom(ch.Cfg.FeeDenom):
		st["fee"] = c.UnitsAny(fee[0].Amount.BigInt())
	default:
		st["fee"] = "?" + fee.String()
	}
	grid := map[string]bool{}
	for _, bk := range ch.Cfg.BKeys {
		grid[bk] = true
	}
	keyOf := func(id uint64) string { return strconv.FormatUint(id, 10) }
	// bridge configs
	cfg := M{}
	if err := k.BridgeConfigs.Walk(ctx, nil, func(id uint64, bc ophosttypes.BridgeConfig) (bool, error) {
		cfg[keyOf(id)] = M{"proposer": c.AddrName(bc.Proposer), "challenger": c.AddrName(bc.Challenger), "period": ticks(bc.FinalizationPeriod),
			"interval": ticks(bc.SubmissionInterval), "startH": int64(bc.SubmissionStartHeight), "oracle": bc.OracleEnabled,
			"meta": c.MetaName(bc.Metadata), "bsub": c.submitterName(bc.BatchInfo.Submitter), "bchain": bc.BatchInfo.ChainType.StringWithoutPrefix()}
		return false, nil
	}); err != nil {
		panic(err)
	}
	st["cfg"] = cfg
	l1seq, nextOut, outs, batch, lastFinal, pairs, claimed := M{}, M{}, M{}, M{}, M{}, M{}, M{}
	for _, bk := range ch.Cfg.BKeys {
		id, _ := strconv.ParseUint(bk, 10, 64)
		sq, err := f.Querier.NextL1Sequence(ctx, &ophosttypes.QueryNextL1SequenceRequest{BridgeId: id})
		if err != nil {
			panic(err)
		}
		l1seq[bk] = int64(sq.NextL1Sequence)
		no, err := k.GetNextOutputIndex(ctx, id)
		if err != nil {
			panic(err)
		}
		nextOut[bk] = int64(no)
		outs[bk], batch[bk], pairs[bk], claimed[bk] = M{}, []any{}, M{}, M{}
		lastFinal[bk] = int64(0)
		if _, ok := cfg[bk]; ok {
			lf, err := f.Querier.LastFinalizedOutput(ctx, &ophosttypes.QueryLastFinalizedOutputRequest{BridgeId: id})
			if err != nil {
				lastFinal[bk] = "?" + err.Error()
			} else {
				lastFinal[bk] = int64(lf.OutputIndex)
			}
		}
	}
	sub := func(m M, bk string, mk func() any) any {
		if _, ok := m[bk]; !ok {
			m[bk] = mk() // a record under a bridge id outside the grid: kept, so that it shows up as a difference
		}
		return m[bk]
	}
	if err := k.OutputProposals.Walk(ctx, nil, func(key collections.Pair[uint64, uint64], o ophosttypes.Output) (bool, error) {
		sub(outs, keyOf(key.K1()), func() any { return M{} }).(M)[keyOf(key.K2())] = ch.outRec(o)
		return false, nil
	}); err != nil {
		panic(err)
	}
	// cross-check with the paginated query the properties name
	for _, bk := range ch.Cfg.BKeys {
		id, _ := strconv.ParseUint(bk, 10, 64)
		res, err := f.Querier.OutputProposals(ctx, &ophosttypes.QueryOutputProposalsRequest{BridgeId: id, Pagination: &query.PageRequest{Limit: 10000}})
		if err != nil {
			panic(err)
		}
		if len(res.OutputProposals) != len(outs[bk].(M)) {
			outs[bk].(M)["?query"] = int64(len(res.OutputProposals))
		}
	}
	if err := k.BatchInfos.Walk(ctx, nil, func(key collections.Pair[uint64, uint64], bi ophosttypes.BatchInfoWithOutput) (bool, error) {
		bk := keyOf(key.K1())
		cur, _ := batch[bk].([]any)
		batch[bk] = append(cur, M{"sub": c.submitterName(bi.BatchInfo.Submitter), "chain": bi.BatchInfo.ChainType.StringWithoutPrefix(), "out": ch.outRec(bi.Output)})
		return false, nil
	}); err != nil {
		panic(err)
	}
	if err := k.TokenPairs.Walk(ctx, nil, func(key collections.Pair[uint64, string], l1 string) (bool, error) {
		sub(pairs, keyOf(key.K1()), func() any { return M{} }).(M)[c.DenomName(key.K2())] = c.DenomName(l1)
		return false, nil
	}); err != nil {
		panic(err)
	}
	// claims: through the Claimed query for every known leaf, plus a raw walk for anything else
	raw := map[string]bool{}
	// keys only: what the collection stores as value is the module's business (a flag today)
	pit, err := k.ProvenWithdrawals.Iterate(ctx, nil)
	if err != nil {
		panic(err)
	}
	for ; pit.Valid(); pit.Next() {
		key, err := pit.Key()
		if err != nil {
			panic(err)
		}
		raw[keyOf(key.K1())+"#"+hex.EncodeToString(key.K2())] = true
	}
	pit.Close()
	for hx, lid := range c.KnownLeaves() {
		hb, _ := hex.DecodeString(hx)
		for _, bk := range ch.Cfg.BKeys {
			id, _ := strconv.ParseUint(bk, 10, 64)
			q, err := f.Querier.Claimed(ctx, &ophosttypes.QueryClaimedRequest{BridgeId: id, WithdrawalHash: hb})
			if err != nil {
				panic(err)
			}
			if q.Claimed {
				claimed[bk].(M)[lid] = true
			}
			if q.Claimed != raw[bk+"#"+hx] {
				claimed[bk].(M)["?query-vs-store:"+lid] = q.Claimed
			}
			delete(raw, bk+"#"+hx)
		}
	}
	for rk := range raw {
		claimed["?raw:"+rk] = true
	}
	st["l1seq"], st["nextOut"], st["outs"], st["batch"], st["lastFinal"], st["pairs"], st["claimed"] = l1seq, nextOut, outs, batch, lastFinal, pairs, claimed
	// raw sequence keys outside the grid
	if err := k.NextL1Sequences.Walk(ctx, nil, func(id uint64, v uint64) (bool, error) {
		if !grid[keyOf(id)] {
			l1seq[keyOf(id)] = int64(v)
		}
		return false, nil
	}); err != nil {
		panic(err)
	}
	// balances
	bal, stray := M{}, M{}
	tracked := map[string]bool{}
	for _, a := range ch.Cfg.Accts {
		row := M{}
		addr := c.AddrBytes(a)
		tracked[addr.String()] = true
		for _, d := range ch.Cfg.Denoms {
			row[d] = c.UnitsAny(f.Bank.GetBalance(ctx, addr, c.Denom(d)).Amount.BigInt())
		}
		bal[a] = row
	}
	denomTracked := map[string]bool{}
	for _, d := range ch.Cfg.Denoms {
		denomTracked[c.Denom(d)] = true
	}
	f.Bank.IterateAllBalances(ctx, func(addr sdk.AccAddress, cn sdk.Coin) bool {
		if cn.Amount.IsZero() || (tracked[addr.String()] && denomTracked[cn.Denom]) {
			return false
		}
		stray[c.AddrName(addr.String())+"/"+c.DenomName(cn.Denom)] = cn.Amount.String()
		return false
	})
	st["bal"], st["stray"] = bal, stray
	// channels
	chans := M{}
	for _, cn := range ch.Cfg.Chans {
		p, id := ChanIDs(cn)
		seq, _ := f.Perm.GetNextSequenceSend(ctx, p, id)
		admin := ""
		if a := f.Perm.Admin(ctx, p, id); a != nil {
			admin = c.AddrName(sdk.AccAddress(a).String())
		}
		chans[cn] = M{"seq": int64(seq), "admin": admin}
	}
	st["chan"] = chans
	return st
}

// Digest is a hash-free canonical dump of every module store (used for "no effect" comparisons).
func (ch *Chain) Digest() string {
	var names []string
	for n := range ch.F.Keys {
		names = append(names, n)
	}
	sort.Strings(names)
	var sb bytes.Buffer
	for _, n := range names {
		it := ch.Ctx.KVStore(ch.F.Keys[n]).Iterator(nil, nil)
		for ; it.Valid(); it.Next() {
			fmt.Fprintf(&sb, "%s/%x=%x\n", n, it.Key(), it.Value())
		}
		it.Close()
	}
	return sb.String()
}

var _ = authtypes.ModuleName

// ApplyMeta takes the run constants printed by the model (META line) into the run configuration.
func ApplyMeta(cfg *RunCfg, c *Conc, meta M) {
	strs := func(v any) []string {
		var out []string
		for _, x := range absx.List(v) {
			out = append(out, absx.Str(x))
		}
		sort.Strings(out)
		return out
	}
	if v, ok := meta["bkeys"]; ok {
		cfg.BKeys = strs(v)
	}
	if v, ok := meta["accts"]; ok {
		cfg.Accts = strs(v)
	}
	if v, ok := meta["denoms"]; ok {
		cfg.Denoms = strs(v)
	}
	if v, ok := meta["funded"]; ok {
		cfg.Funded = strs(v)
	}
	if v, ok := meta["chans"]; ok {
		cfg.Chans = strs(v)
	}
	if v, ok := meta["devs"]; ok {
		cfg.Devs = strs(v)
	}
	if v, ok := meta["amt0"]; ok {
		cfg.Amt0 = absx.Int(v)
	}
	if v, ok := meta["maxB"]; ok {
		cfg.MaxB = absx.Int(v)
	}
	if v, ok := meta["feeDenom"]; ok {
		cfg.FeeDenom = absx.Str(v)
	}
	if v, ok := meta["l2top"]; ok {
		cfg.L2Top = absx.Int(v)
	}
	if v, ok := meta["trees"]; ok {
		for id, ls := range absx.Map(v) {
			var leaves []M
			for _, l := range absx.List(ls) {
				leaves = append(leaves, absx.Map(l))
			}
			c.Trees[id] = leaves
		}
	}
}

// query runs a gRPC query of the real Querier and renders its answer in the abstract vocabulary.
func (ch *Chain) query(e M) Outcome {
	c := ch.C
	q := ch.F.Querier
	ctx := ch.Ctx
	b := func() uint64 { return uint64(absx.Int(e["b"])) }
	page := func() *query.PageRequest {
		return &query.PageRequest{Offset: uint64(absx.Int(e["offset"])), Limit: uint64(absx.Int(e["limit"])), Reverse: absx.Bool(e["reverse"]), CountTotal: true}
	}
	fail := func(err error) Outcome { return Outcome{OK: false, Err: err.Error()} }
	switch absx.Str(e["q"]) {
	case "Bridge":
		r, err := q.Bridge(ctx, &ophosttypes.QueryBridgeRequest{BridgeId: b()})
		if err != nil {
			return fail(err)
		}
		return Outcome{OK: true, Resp: M{"proposer": c.AddrName(r.BridgeConfig.Proposer), "challenger": c.AddrName(r.BridgeConfig.Challenger),
			"period": ticks(r.BridgeConfig.FinalizationPeriod), "addr": c.AddrName(r.BridgeAddr)}}
	case "Bridges":
		r, err := q.Bridges(ctx, &ophosttypes.QueryBridgesRequest{Pagination: page()})
		if err != nil {
			return fail(err)
		}
		ids := []any{}
		for _, x := range r.Bridges {
			ids = append(ids, int64(x.BridgeId))
		}
		return Outcome{OK: true, Resp: M{"ids": ids, "total": int64(r.Pagination.Total)}}
	case "NextL1Sequence":
		r, err := q.NextL1Sequence(ctx, &ophosttypes.QueryNextL1SequenceRequest{BridgeId: b()})
		if err != nil {
			return fail(err)
		}
		return Outcome{OK: true, Resp: M{"seq": int64(r.NextL1Sequence)}}
	case "LastFinalizedOutput":
		r, err := q.LastFinalizedOutput(ctx, &ophosttypes.QueryLastFinalizedOutputRequest{BridgeId: b()})
		if err != nil {
			return fail(err)
		}
		return Outcome{OK: true, Resp: M{"idx": int64(r.OutputIndex), "l2bn": map[bool]int64{true: 0, false: ch.l2a(r.OutputProposal.L2BlockNumber)}[r.OutputIndex == 0]}}
	case "OutputProposal":
		r, err := q.OutputProposal(ctx, &ophosttypes.QueryOutputProposalRequest{BridgeId: b(), OutputIndex: uint64(absx.Int(e["idx"]))})
		if err != nil {
			return fail(err)
		}
		return Outcome{OK: true, Resp: M{"l2bn": ch.l2a(r.OutputProposal.L2BlockNumber), "t": TimeTick(r.OutputProposal.L1BlockTime), "root": c.RootName(r.OutputProposal.OutputRoot)}}
	case "OutputProposals":
		r, err := q.OutputProposals(ctx, &ophosttypes.QueryOutputProposalsRequest{BridgeId: b(), Pagination: page()})
		if err != nil {
			return fail(err)
		}
		idxs := []any{}
		for _, x := range r.OutputProposals {
			idxs = append(idxs, int64(x.OutputIndex))
		}
		return Outcome{OK: true, Resp: M{"idxs": idxs, "total": int64(r.Pagination.Total)}}
	case "BatchInfos":
		r, err := q.BatchInfos(ctx, &ophosttypes.QueryBatchInfosRequest{BridgeId: b(), Pagination: page()})
		if err != nil {
			return fail(err)
		}
		return Outcome{OK: true, Resp: M{"n": int64(len(r.BatchInfos)), "total": int64(r.Pagination.Total)}}
	case "TokenPairByL1Denom":
		r, err := q.TokenPairByL1Denom(ctx, &ophosttypes.QueryTokenPairByL1DenomRequest{BridgeId: b(), L1Denom: c.Denom(absx.Str(e["denom"]))})
		if err != nil {
			return fail(err)
		}
		return Outcome{OK: true, Resp: M{"l2denom": c.DenomName(r.TokenPair.L2Denom)}}
	case "TokenPairByL2Denom":
		r, err := q.TokenPairByL2Denom(ctx, &ophosttypes.QueryTokenPairByL2DenomRequest{BridgeId: b(), L2Denom: ophosttypes.L2Denom(b(), c.Denom(absx.Str(e["denom"])))})
		if err != nil {
			return fail(err)
		}
		return Outcome{OK: true, Resp: M{"l1denom": c.DenomName(r.TokenPair.L1Denom)}}
	case "TokenPairs":
		r, err := q.TokenPairs(ctx, &ophosttypes.QueryTokenPairsRequest{BridgeId: b(), Pagination: page()})
		if err != nil {
			return fail(err)
		}
		return Outcome{OK: true, Resp: M{"n": int64(len(r.TokenPairs)), "total": int64(r.Pagination.Total)}}
	case "Claimed":
		w := absx.Map(e["w"])
		leaf := M{"b": e["b"], "seq": w["seq"], "from": w["from"], "to": w["to"], "denom": w["denom"], "amt": w["amt"]}
		r, err := q.Claimed(ctx, &ophosttypes.QueryClaimedRequest{BridgeId: b(), WithdrawalHash: c.LeafHash(leaf)})
		if err != nil {
			return fail(err)
		}
		return Outcome{OK: true, Resp: M{"claimed": r.Claimed}}
	case "Params":
		r, err := q.Params(ctx, &ophosttypes.QueryParamsRequest{})
		if err != nil {
			return fail(err)
		}
		fee := int64(0)
		if len(r.Params.RegistrationFee) == 1 && r.Params.RegistrationFee[0].Denom == c.Denom(ch.Cfg.FeeDenom) {
			if v, ok := c.UnitsAny(r.Params.RegistrationFee[0].Amount.BigInt()).(int64); ok {
				fee = v
			} else {
				return Outcome{OK: true, Resp: M{"fee": c.UnitsAny(r.Params.RegistrationFee[0].Amount.BigInt())}}
			}
		} else if len(r.Params.RegistrationFee) != 0 {
			return Outcome{OK: true, Resp: M{"fee": "?" + r.Params.RegistrationFee.String()}}
		}
		return Outcome{OK: true, Resp: M{"fee": fee}}
	}
	panic("unknown query " + absx.Str(e["q"]))
}
