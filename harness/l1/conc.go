package l1

import (
	"crypto/sha256"
	"encoding/hex"
	"encoding/json"
	"fmt"
	"math/big"
	"strings"

	"github.com/cosmos/cosmos-sdk/crypto/keys/secp256k1"
	sdk "github.com/cosmos/cosmos-sdk/types"
	authtypes "github.com/cosmos/cosmos-sdk/x/auth/types"
	distributiontypes "github.com/cosmos/cosmos-sdk/x/distribution/types"
	govtypes "github.com/cosmos/cosmos-sdk/x/gov/types"

	"verifharness/absx"
	"verifharness/fmtx"
)

// Conc maps abstract values of the specification to concrete chain values and back.  All choices are
// functions of (Seed, name) so that independent instances agree and a replay reproduces the bytes.
type Conc struct {
	Seed  int64
	U     *big.Int            // one abstract unit of amount
	Trees map[string][]absx.M // tree id -> list of leaf records [b, seq, from, to, denom, amt]

	addrRev   map[string]string
	denomRev  map[string]string
	rootRev   map[string]absx.M
	leafRev   map[string]string
	metaRev   map[string]absx.M
	dataRev   map[string]string
	denomPool []string
}

func NewConc(seed int64, u *big.Int) *Conc {
	c := &Conc{Seed: seed, U: u, Trees: map[string][]absx.M{}, addrRev: map[string]string{}, denomRev: map[string]string{},
		rootRev: map[string]absx.M{}, leafRev: map[string]string{}, metaRev: map[string]absx.M{}, dataRev: map[string]string{}}
	// two denoms of 122 characters (the SDK allows 128; a token-factory denom of a 32-byte address gets there) that share a long prefix
	long := "factory/init1qqqqqqqqqqqqqqqqqqqqqqqqqqqqqqqqqqqqqqqqqqqqpqr5s4/" + strings.Repeat("sub-denom.", 5) + "x/"
	pools := [][]string{
		{"uinit", "ibc/27394FB092D2ECCD56123C74F36E4C1F926001CEADA9CA97EA622B25F41E5EB2", "utia", "factory/init1xyz/sub-denom"},
		{long + "uusdc", long + "uusdt", "test3", "test4"},
		{"move/944f8dd8dc49f96c25fea9849f16436dcfa6d564eec802f3ef7f8b3ea85368ff", "uusdc", "l2/771d639f30fbe45e3fbca954ffbe2fcc26f915f5513c67a4a2d0bc1d635bdefd", "a/b:c.d_e-f"},
		{"test1", "test2", "test3", "test4"},
	}
	c.denomPool = pools[int(uint64(seed)%uint64(len(pools)))]
	return c
}

func (c *Conc) h(parts ...string) []byte {
	s := sha256.Sum256([]byte(fmt.Sprintf("%d|%s", c.Seed, strings.Join(parts, "|"))))
	return s[:]
}

const (
	BadEmpty      = "bad:empty"
	BadNotBech32  = "bad:notbech32"
	BadSpace      = "bad:space" // a string of blanks: not empty, not an address
	BadDenom      = "bad:denom"
	badDenomValue = "!"
)

// Addr returns the concrete address string of an abstract account name.
func (c *Conc) Addr(name string) string {
	var s string
	switch {
	case name == BadEmpty:
		return ""
	case name == BadSpace:
		c.addrRev[" \t "] = name
		return " \t "
	case name == BadNotBech32:
		s = "notbech32-" + hex.EncodeToString(c.h("bad")[:4]) + "-" + strings.Repeat("long-recipient.", 19) // 304 bytes: longer than any address format allows
		c.addrRev[s] = name
		return s
	case name == "gov":
		s = authtypes.NewModuleAddress(govtypes.ModuleName).String()
	case name == "pool":
		s = authtypes.NewModuleAddress(distributiontypes.ModuleName).String()
	case strings.HasPrefix(name, "esc"):
		var id uint64
		fmt.Sscanf(name[3:], "%d", &id)
		s = sdk.AccAddress(fmtx.BridgeAddr(id)).String() // independent derivation of the escrow address
	case strings.HasPrefix(name, "up:"): // the same address written in upper case: a different string
		s = strings.ToUpper(c.Addr(name[3:]))
	case name == "opchild":
		s = authtypes.NewModuleAddress("opchild").String()
	case name == "feecollector":
		s = authtypes.NewModuleAddress(authtypes.FeeCollectorName).String()
	default:
		s = sdk.AccAddress(c.PrivKey(name).PubKey().Address()).String()
	}
	c.addrRev[s] = name
	return s
}

// PrivKey is the deterministic secp256k1 key of a named account (its address is derived from it).
func (c *Conc) PrivKey(name string) *secp256k1.PrivKey {
	return secp256k1.GenPrivKeyFromSecret(c.h("key", name))
}

// ValAddr is the operator address of a named validator operator.
func (c *Conc) ValAddr(name string) sdk.ValAddress { return sdk.ValAddress(c.AddrBytes(name)) }

func (c *Conc) AddrBytes(name string) sdk.AccAddress {
	a, err := sdk.AccAddressFromBech32(c.Addr(name))
	if err != nil {
		panic(err)
	}
	return a
}

func (c *Conc) AddrName(s string) string {
	if n, ok := c.addrRev[s]; ok {
		return n
	}
	if s == "" {
		return BadEmpty
	}
	return "?" + s
}

func (c *Conc) Denom(d string) string {
	if d == BadDenom {
		return badDenomValue
	}
	if strings.HasPrefix(d, "l2/") { // abstract L2 denom "l2/<b>/<d>"
		var b uint64
		rest := d[3:]
		i := strings.Index(rest, "/")
		fmt.Sscanf(rest[:i], "%d", &b)
		s := fmtx.L2Denom(b, c.Denom(rest[i+1:]))
		c.denomRev[s] = d
		return s
	}
	if strings.HasPrefix(d, "n") { // native L2 denoms
		s := "umin" + d[1:]
		c.denomRev[s] = d
		return s
	}
	var idx int
	fmt.Sscanf(d, "d%d", &idx)
	var s string
	if idx >= 1 && idx <= len(c.denomPool) {
		s = c.denomPool[idx-1]
	} else {
		s = "tok" + hex.EncodeToString(c.h("denom", d)[:6])
	}
	c.denomRev[s] = d
	return s
}

func (c *Conc) DenomName(s string) string {
	if n, ok := c.denomRev[s]; ok {
		return n
	}
	if s == badDenomValue {
		return BadDenom
	}
	return "?" + s
}

// RegisterL2Denoms interns the L2 denoms of the bridge-id x denom grid so that projections can name them.
func (c *Conc) RegisterL2Denoms(bridges []uint64, denoms []string) {
	for _, b := range bridges {
		for _, d := range denoms {
			c.Denom(fmt.Sprintf("l2/%d/%s", b, d))
		}
	}
}

func (c *Conc) Amount(units int64) *big.Int { return new(big.Int).Mul(big.NewInt(units), c.U) }

// Units converts an amount back to abstract units; ok=false if it is not a multiple of U.
func (c *Conc) Units(a *big.Int) (int64, bool) {
	q, r := new(big.Int).QuoRem(a, c.U, new(big.Int))
	if r.Sign() != 0 || !q.IsInt64() {
		return 0, false
	}
	return q.Int64(), true
}

func (c *Conc) UnitsAny(a *big.Int) any {
	if u, ok := c.Units(a); ok {
		return u
	}
	return "?" + a.String()
}

// Cap is the number of units that fit in 64 bits.
func (c *Conc) Cap() int64 {
	max := new(big.Int).SetUint64(^uint64(0))
	q := new(big.Int).Quo(max, c.U)
	if !q.IsInt64() || q.Int64() > 1<<30 {
		return 1 << 30
	}
	return q.Int64()
}

func (c *Conc) Data(p string) []byte {
	if p == "p0" || p == "" {
		return nil
	}
	n := 1 + int(c.h("datalen", p)[0])%96
	var out []byte
	for i := 0; len(out) < n; i++ {
		out = append(out, c.h("data", p, fmt.Sprint(i))...)
	}
	out = out[:n]
	c.dataRev[hex.EncodeToString(out)] = p
	return out
}

func (c *Conc) DataName(hexs string) string {
	if hexs == "" {
		return "p0"
	}
	if n, ok := c.dataRev[hexs]; ok {
		return n
	}
	return "?" + hexs
}

func (c *Conc) BlockHash(h string) []byte { return c.h("blockhash", h) }

// ---- withdrawal leaves, trees, roots -------------------------------------------------------------

type LeafC struct {
	Bridge, Seq uint64
	From, To    string
	Denom       string
	Amt         *big.Int
}

func (c *Conc) LeafOf(l absx.M) LeafC {
	return LeafC{Bridge: uint64(absx.Int(l["b"])), Seq: uint64(absx.Int(l["seq"])), From: c.Addr(absx.Str(l["from"])), To: c.Addr(absx.Str(l["to"])),
		Denom: c.Denom(absx.Str(l["denom"])), Amt: c.Amount(absx.Int(l["amt"]))}
}

func LeafID(l absx.M) string {
	return fmt.Sprintf("%d|%d|%s|%s|%s|%d", absx.Int(l["b"]), absx.Int(l["seq"]), absx.Str(l["from"]), absx.Str(l["to"]), absx.Str(l["denom"]), absx.Int(l["amt"]))
}

func low64(a *big.Int) uint64 {
	return new(big.Int).And(a, new(big.Int).SetUint64(^uint64(0))).Uint64()
}

func (c *Conc) LeafHash(l absx.M) []byte {
	lc := c.LeafOf(l)
	hsh := fmtx.Leaf(lc.Bridge, lc.Seq, lc.From, lc.To, lc.Denom, low64(lc.Amt))
	if lc.Amt.IsUint64() {
		c.leafRev[hex.EncodeToString(hsh)] = LeafID(l)
	}
	return hsh
}

func (c *Conc) LeafName(hash []byte) (string, bool) {
	n, ok := c.leafRev[hex.EncodeToString(hash)]
	return n, ok
}

func (c *Conc) KnownLeaves() map[string]string { return c.leafRev }

func (c *Conc) TreeLeaves(id string) [][]byte {
	var out [][]byte
	for _, l := range c.Trees[id] {
		out = append(out, c.LeafHash(l))
	}
	return out
}

func (c *Conc) StorageRoot(treeID string) []byte { return fmtx.TreeRoot(c.TreeLeaves(treeID)) }

// Root concretises the abstract root record [v, t, h].
func (c *Conc) Root(r absx.M) []byte {
	v := byte(absx.Int(r["v"]))
	t := absx.Str(r["t"])
	root := fmtx.OutputRoot(v, c.StorageRoot(t), c.BlockHash(absx.Str(r["h"])))
	c.rootRev[hex.EncodeToString(root)] = absx.M{"v": int64(v), "t": t, "h": absx.Str(r["h"])}
	return root
}

func (c *Conc) RootName(root []byte) absx.M {
	if r, ok := c.rootRev[hex.EncodeToString(root)]; ok {
		return r
	}
	return absx.M{"v": int64(-1), "t": "?" + hex.EncodeToString(root), "h": ""}
}

// InternRoot names an independently computed output root that was not produced from a [v,t,h] record.
func (c *Conc) InternRootBytes(root []byte, name absx.M) { c.rootRev[hex.EncodeToString(root)] = name }

// ---- metadata -------------------------------------------------------------------------------------

func ChanIDs(ch string) (port, channel string) {
	var n int
	fmt.Sscanf(ch, "ch%d", &n)
	return "transfer", fmt.Sprintf("channel-%d", n)
}

// Meta renders a metadata record [cls, chs] to bytes.  The class fixes how the bytes relate to the
// documented structure {"perm_channels":[{"port_id":..,"channel_id":..},..]}.
func (c *Conc) Meta(m absx.M) []byte {
	cls := absx.Str(m["cls"])
	var items []string
	for _, ch := range absx.List(m["chs"]) {
		p, id := ChanIDs(absx.Str(ch))
		if c.Seed%2 == 0 {
			items = append(items, fmt.Sprintf(`{"port_id":%q,"channel_id":%q}`, p, id))
		} else {
			items = append(items, fmt.Sprintf(`{ "channel_id": %q, "port_id": %q }`, id, p))
		}
	}
	list := "[" + strings.Join(items, ",") + "]"
	var out string
	switch cls {
	case "none":
		out = ""
	case "plain":
		out = `{"name":"minitia","note":"no channels"}`
	case "perm":
		// three spellings of the same document; which one a channel list gets depends on the list, so that one run sees all
		variant := int(uint64(c.Seed)%3) + len(items)
		if len(items) > 0 && strings.Contains(items[0], "channel-1") {
			variant++
		}
		switch variant % 3 {
		case 0:
			out = `{"perm_channels":` + list + `}`
		case 1:
			out = "{\n  \"perm_channels\": " + list + "\n}"
		default: // JSON escapes in the key and in a value: still the key perm_channels, still the port "transfer"
			out = `{"perm_\u0063hannels":` + strings.ReplaceAll(list, `"transfer"`, `"transf\u0065r"`) + `}`
		}
	case "unknownField":
		out = `{"perm_channels":` + list + `,"extra":1}`
	case "casedKey":
		out = `{"PERM_CHANNELS":` + list + `}`
	case "notJSON":
		out = `perm_channels: ` + list
	case "wrongType":
		out = `{"perm_channels":"` + strings.ReplaceAll(list, `"`, `'`) + `"}`
	case "trailing": // a well-formed list followed by bytes that make the whole string invalid JSON
		if c.Seed%2 == 0 {
			out = `{"perm_channels":` + list + `} trailing-garbage`
		} else {
			out = `{"perm_channels":` + list + `}{"unknown":1}`
		}
	case "incomplete": // the documented structure, with one more entry that lacks its port id (so it names no existing channel)
		extra := `{"channel_id":"channel-2"}`
		if len(items) > 0 {
			out = `{"perm_channels":[` + strings.Join(items, ",") + `,` + extra + `]}`
		} else {
			out = `{"perm_channels":[` + extra + `]}`
		}
	case "long":
		out = `{"perm_channels":` + list + `,"pad":"` + strings.Repeat("x", 5200) + `"}`
	default:
		panic("unknown metadata class " + cls)
	}
	c.metaRev[out] = absx.M{"cls": cls, "chs": m["chs"]}
	return []byte(out)
}

func (c *Conc) MetaName(b []byte) absx.M {
	if m, ok := c.metaRev[string(b)]; ok {
		return m
	}
	if len(b) == 0 {
		return absx.M{"cls": "none", "chs": []any{}}
	}
	j, _ := json.Marshal(string(b))
	return absx.M{"cls": "?" + string(j), "chs": []any{}}
}
