// Package walk replays the transitions of a bounded TLA+ model (as emitted by TLC through the
// ACTION_CONSTRAINT Emit of the MC_* modules) on a real implementation.  The state graph is walked
// along its breadth-first spanning tree with store branching; every edge of the graph (tree edge or
// not, succeeding or failing) is executed once on the real code from a real state that projects to the
// edge's source state, and result, response and projected post-state are compared.
package walk

import (
	"bufio"
	"encoding/json"
	"fmt"
	"os"
	"runtime"
	"sort"
	"strings"
	"sync"

	"verifharness/absx"
)

type M = absx.M

// Impl is the implementation side of the binding.
type Impl interface {
	Fork() Impl
	Exec(e M) (ok bool, resp M, errStr string)
	Project() M
}

type Edge struct {
	From, To int
	E        M
	OK       bool
	Resp     M
	Failed   []string
}

type Graph struct {
	Meta   M
	States []M // canonical state by id
	index  map[string]int
	Out    map[int][]*Edge
	NEdges int
}

func (g *Graph) id(st any) int {
	c := absx.Canon(st)
	if i, ok := g.index[c]; ok {
		return i
	}
	i := len(g.States)
	g.index[c] = i
	g.States = append(g.States, absx.Map(absx.Norm(st)))
	return i
}

// Lookup returns the id of the state a projection denotes.
func (g *Graph) Lookup(st any) (int, bool) {
	i, ok := g.index[absx.Canon(st)]
	return i, ok
}

// Load parses TLC's output: lines are TLA+ string literals `"EDGE {json}"` / `"META {json}"`.
// Lines are decoded in parallel; states are interned by the raw JSON text TLC printed for them
// (identical for identical states), so each distinct state is decoded once.
func Load(path string) (*Graph, error) {
	fh, err := os.Open(path)
	if err != nil {
		return nil, err
	}
	defer fh.Close()
	g := &Graph{index: map[string]int{}, Out: map[int][]*Edge{}}
	type rawEdge struct {
		from, to string
		rawE     string
		ed       *Edge
		meta     M
		err      error
	}
	lines := make(chan string, 1024)
	outc := make(chan rawEdge, 1024)
	var wg sync.WaitGroup
	nw := runtime.NumCPU()
	if nw > 12 {
		nw = 12
	}
	for w := 0; w < nw; w++ {
		wg.Add(1)
		go func() {
			defer wg.Done()
			for line := range lines {
				var s string
				if err := json.Unmarshal([]byte(line), &s); err != nil {
					outc <- rawEdge{err: fmt.Errorf("bad line: %w", err)}
					continue
				}
				if s[:4] == "META" {
					var obj map[string]any
					if err := json.Unmarshal([]byte(s[5:]), &obj); err != nil {
						outc <- rawEdge{err: err}
						continue
					}
					outc <- rawEdge{meta: absx.Map(absx.Norm(obj))}
					continue
				}
				var obj map[string]json.RawMessage
				if err := json.Unmarshal([]byte(s[5:]), &obj); err != nil {
					outc <- rawEdge{err: fmt.Errorf("bad json: %w", err)}
					continue
				}
				var resp, failed any
				var ok bool
				_ = json.Unmarshal(obj["resp"], &resp)
				_ = json.Unmarshal(obj["failed"], &failed)
				_ = json.Unmarshal(obj["ok"], &ok)
				ed := &Edge{OK: ok, Resp: absx.Map(absx.Norm(resp))}
				for _, f := range absx.List(absx.Norm(failed)) {
					ed.Failed = append(ed.Failed, absx.Str(f))
				}
				sort.Strings(ed.Failed)
				re := rawEdge{from: string(obj["from"]), rawE: string(obj["e"]), ed: ed}
				if ok {
					re.to = string(obj["to"])
				}
				outc <- re
			}
		}()
	}
	var scanErr error
	go func() {
		sc := bufio.NewScanner(fh)
		sc.Buffer(make([]byte, 1<<20), 1<<28)
		for sc.Scan() {
			line := sc.Text()
			if strings.HasPrefix(line, `"EDGE `) || strings.HasPrefix(line, `"META `) {
				lines <- line
			}
		}
		scanErr = sc.Err()
		close(lines)
		wg.Wait()
		close(outc)
	}()
	rawIndex := map[string]int{}
	intern := func(raw string) int {
		if i, ok := rawIndex[raw]; ok {
			return i
		}
		var v any
		if err := json.Unmarshal([]byte(raw), &v); err != nil {
			panic(err)
		}
		i := g.id(v)
		rawIndex[raw] = i
		return i
	}
	// identical raw texts (the same state or the same event printed on many edges) share one string and one decoded value
	pool := map[string]string{}
	share := func(s string) string {
		if c, ok := pool[s]; ok {
			return c
		}
		pool[s] = s
		return s
	}
	events := map[string]M{}
	var all []rawEdge
	for re := range outc {
		if re.err != nil {
			return nil, re.err
		}
		if re.meta != nil {
			g.Meta = re.meta
			continue
		}
		re.from, re.to, re.rawE = share(re.from), share(re.to), share(re.rawE)
		ev, ok := events[re.rawE]
		if !ok {
			var e any
			if err := json.Unmarshal([]byte(re.rawE), &e); err != nil {
				return nil, err
			}
			ev = absx.Map(absx.Norm(e))
			events[re.rawE] = ev
		}
		re.ed.E = ev
		all = append(all, re)
	}
	pool = nil
	// deterministic edge order regardless of worker scheduling
	sort.Slice(all, func(i, j int) bool {
		if all[i].from != all[j].from {
			return all[i].from < all[j].from
		}
		return all[i].rawE < all[j].rawE
	})
	for _, re := range all {
		re.ed.From = intern(re.from)
		if re.ed.OK {
			re.ed.To = intern(re.to)
		} else {
			re.ed.To = re.ed.From
		}
		g.Out[re.ed.From] = append(g.Out[re.ed.From], re.ed)
		g.NEdges++
	}
	return g, scanErr
}

type Mismatch struct {
	Kind        string   `json:"kind"` // result | resp | state | init
	Event       M        `json:"event"`
	SpecOK      bool     `json:"spec_ok"`
	ImplOK      bool     `json:"impl_ok"`
	Failed      []string `json:"failed_guards,omitempty"`
	ImplErr     string   `json:"impl_err,omitempty"`
	Fields      []string `json:"fields,omitempty"`
	Detail      M        `json:"detail,omitempty"`
	SpecResp    M        `json:"spec_resp,omitempty"`
	Path        []M      `json:"path"`                   // events from the initial state to the source state of the edge
	AfterImport bool     `json:"after_import,omitempty"` // the edge was executed on the chain re-imported from genesis one step earlier
	Diverged    bool     `json:"diverged,omitempty"`     // recorded below an edge whose post-state already differed (only acceptances the specification forbids are recorded there)
}

type Report struct {
	States        int            `json:"states"`
	Edges         int            `json:"edges"`
	EdgesOK       int            `json:"edges_ok"`
	Replayed      int            `json:"replayed"`
	Unreached     int            `json:"unreached_states"`
	Skipped       int            `json:"skipped_subtrees"`
	ByType        map[string]int `json:"by_type"`
	Mismatches    []Mismatch     `json:"mismatches"`
	NMismatch     int            `json:"n_mismatch"`
	Samples       []M            `json:"samples"`
	Findings      map[string]int `json:"findings"` // signature -> number of conforming edges on which the implementation reports it
	FindingSample map[string]M   `json:"finding_samples"`
}

// Walk replays every edge reachable from the state a fresh implementation projects to.  The
// breadth-first spanning tree is cut at a depth with enough nodes; each worker owns an independent
// implementation instance (nothing is shared between workers), re-executes the tree path to a cut
// node on a branch of its own root and then walks that node's subtree.
func Walk(g *Graph, newImpl func() Impl, maxKeep int) *Report {
	rep := &Report{States: len(g.States), Edges: g.NEdges, ByType: map[string]int{}, Mismatches: []Mismatch{}, Samples: []M{}, Findings: map[string]int{}, FindingSample: map[string]M{}}
	init := newImpl()
	s0 := init.Project()
	root, ok := g.index[absx.Canon(s0)]
	if !ok {
		var fields []string
		if len(g.States) > 0 {
			fields = absx.Diff(g.States[0], s0)
		}
		rep.NMismatch++
		rep.Mismatches = append(rep.Mismatches, Mismatch{Kind: "init", Fields: fields, Detail: M{"impl": s0}})
		return rep
	}
	// breadth-first spanning tree
	parent := map[int]*Edge{root: nil}
	depth := map[int]int{root: 0}
	queue := []int{root}
	children := map[int][]*Edge{}
	byDepth := map[int][]int{0: {root}}
	maxDepth := 0
	for len(queue) > 0 {
		n := queue[0]
		queue = queue[1:]
		for _, ed := range g.Out[n] {
			if !ed.OK {
				continue
			}
			if _, seen := parent[ed.To]; !seen {
				parent[ed.To] = ed
				depth[ed.To] = depth[n] + 1
				if depth[ed.To] > maxDepth {
					maxDepth = depth[ed.To]
				}
				byDepth[depth[ed.To]] = append(byDepth[depth[ed.To]], ed.To)
				children[n] = append(children[n], ed)
				queue = append(queue, ed.To)
			}
		}
	}
	rep.Unreached = len(g.States) - len(parent)
	pathTo := func(n int) []M {
		var p []M
		for e := parent[n]; e != nil; e = parent[e.From] {
			p = append([]M{e.E}, p...)
		}
		return p
	}
	nw := runtime.NumCPU()
	if nw > 12 {
		nw = 12
	}
	cut := 0
	for cut < maxDepth && len(byDepth[cut]) < 6*nw {
		cut++
	}
	var mu sync.Mutex
	// mismatches are kept per class (kind, event type, direction, failed guards, top-level fields): a flood of one
	// class must not crowd out a single mismatch of another class that is attributed to a different property
	perClass := map[string]int{}
	classOf := func(m Mismatch) string {
		tops := map[string]bool{}
		for _, f := range m.Fields {
			parts := strings.SplitN(f, ".", 3)
			if len(parts) > 2 {
				parts = parts[:2]
			}
			tops[strings.Join(parts, ".")] = true
		}
		var ts []string
		for t := range tops {
			ts = append(ts, t)
		}
		sort.Strings(ts)
		fg := append([]string{}, m.Failed...)
		sort.Strings(fg)
		return fmt.Sprintf("%s|%s|%v|%v|%v|%v", m.Kind, eventType(m.Event), m.SpecOK, m.ImplOK, fg, ts)
	}
	add := func(m Mismatch) {
		mu.Lock()
		defer mu.Unlock()
		rep.NMismatch++
		c := classOf(m)
		if perClass[c] < 4 && len(rep.Mismatches) < 10*maxKeep {
			perClass[c]++
			rep.Mismatches = append(rep.Mismatches, m)
		}
	}
	// visit executes every edge leaving n; it descends along tree edges while the child is above
	// the cut (top=true) or unconditionally (top=false).
	// visitDiverged continues below an edge whose post-state differed from the specification's: the implementation is
	// walked along the same tree, and only acceptances of events the specification rejects are recorded (a forged claim,
	// a double payment or an unauthorised message accepted BECAUSE of the earlier divergence is a violation of that
	// property in this history too).  Nothing else is compared there.
	var visitDiverged func(n int, im Impl, top bool, budget *int)
	visitDiverged = func(n int, im Impl, top bool, budget *int) {
		isChild := map[*Edge]bool{}
		for _, c := range children[n] {
			isChild[c] = true
		}
		for _, ed := range g.Out[n] {
			if *budget <= 0 {
				return
			}
			*budget--
			f := im.Fork()
			ok, _, errStr := f.Exec(ed.E)
			if ok && !ed.OK {
				add(Mismatch{Kind: "result", Event: ed.E, SpecOK: false, ImplOK: true, Failed: ed.Failed, ImplErr: errStr, Path: pathTo(n), Diverged: true})
			}
			if !ok && ed.OK && mustComplete(ed.E) {
				add(Mismatch{Kind: "result", Event: ed.E, SpecOK: true, ImplOK: false, ImplErr: errStr, Path: pathTo(n), Diverged: true})
			}
			if ok && ed.OK && isChild[ed] && (!top || depth[ed.To] < cut) {
				visitDiverged(ed.To, f, top, budget)
			}
		}
	}
	// one level below a diverged self-loop (a genesis round trip whose re-imported state differs)
	visitDivergedFrom := func(n int, im Impl, path []M, budget *int) {
		for _, ed := range g.Out[n] {
			if *budget <= 0 {
				return
			}
			*budget--
			f := im.Fork()
			ok, _, errStr := f.Exec(ed.E)
			if ok && !ed.OK {
				add(Mismatch{Kind: "result", Event: ed.E, SpecOK: false, ImplOK: true, Failed: ed.Failed, ImplErr: errStr, Path: path, Diverged: true, AfterImport: true})
			}
			if !ok && ed.OK && mustComplete(ed.E) {
				add(Mismatch{Kind: "result", Event: ed.E, SpecOK: true, ImplOK: false, ImplErr: errStr, Path: path, Diverged: true, AfterImport: true})
			}
		}
	}
	var visit func(n int, im Impl, top bool)
	visit = func(n int, im Impl, top bool) {
		isChild := map[*Edge]bool{}
		for _, c := range children[n] {
			isChild[c] = true
		}
		for _, ed := range g.Out[n] {
			f := im.Fork()
			ok, resp, errStr := f.Exec(ed.E)
			mu.Lock()
			rep.Replayed++
			rep.ByType[eventType(ed.E)]++
			if ed.OK {
				rep.EdgesOK++
			}
			if len(rep.Samples) < 3 && ed.OK && rep.Replayed%97 == 1 {
				rep.Samples = append(rep.Samples, M{"event": ed.E, "spec_ok": ed.OK, "impl_ok": ok, "resp": resp})
			}
			mu.Unlock()
			if ok {
				if fl, has := resp["finding"]; has {
					for _, sig := range absx.List(fl) {
						mu.Lock()
						rep.Findings[absx.Str(sig)]++
						if _, seen := rep.FindingSample[absx.Str(sig)]; !seen {
							rep.FindingSample[absx.Str(sig)] = M{"event": ed.E, "path": pathTo(n), "resp": resp}
						}
						mu.Unlock()
					}
				}
			}
			good := true
			if ok != ed.OK {
				add(Mismatch{Kind: "result", Event: ed.E, SpecOK: ed.OK, ImplOK: ok, Failed: ed.Failed, ImplErr: errStr, Path: pathTo(n)})
				good = false
			} else if ok {
				if d := absx.Diff(ed.Resp, resp); len(d) > 0 {
					add(Mismatch{Kind: "resp", Event: ed.E, SpecOK: true, ImplOK: true, Fields: d, Detail: M{"spec": ed.Resp, "impl": resp}, Path: pathTo(n)})
				}
				st := f.Project()
				if d := absx.Diff(g.States[ed.To], st); len(d) > 0 {
					det := M{}
					for i, p := range d {
						if i < 6 {
							det[p] = M{"spec": dig(g.States[ed.To], p), "impl": dig(st, p)}
						}
					}
					add(Mismatch{Kind: "state", Event: ed.E, SpecOK: true, ImplOK: true, Fields: d, Detail: det, SpecResp: ed.Resp, Path: pathTo(n)})
					good = false
				}
			}
			if ed.OK && ok && ed.To == n && strings.HasSuffix(eventType(ed.E), "ExportImport") {
				// a genesis round trip that leaves the abstract state unchanged: every event enabled here is executed once more
				// on the re-imported chain (one step; C16: the new chain answers every later message as the original would)
				if good {
					for _, ed2 := range g.Out[n] {
						if strings.HasSuffix(eventType(ed2.E), "ExportImport") {
							continue
						}
						f2 := f.Fork()
						ok2, resp2, err2 := f2.Exec(ed2.E)
						p2 := append(pathTo(n), ed.E)
						if ok2 != ed2.OK {
							add(Mismatch{Kind: "result", Event: ed2.E, SpecOK: ed2.OK, ImplOK: ok2, Failed: ed2.Failed, ImplErr: err2, Path: p2, AfterImport: true})
						} else if ok2 {
							if d := absx.Diff(ed2.Resp, resp2); len(d) > 0 {
								add(Mismatch{Kind: "resp", Event: ed2.E, SpecOK: true, ImplOK: true, Fields: d, Detail: M{"spec": ed2.Resp, "impl": resp2}, Path: p2, AfterImport: true})
							}
							if d := absx.Diff(g.States[ed2.To], f2.Project()); len(d) > 0 {
								add(Mismatch{Kind: "state", Event: ed2.E, SpecOK: true, ImplOK: true, Fields: d, SpecResp: ed2.Resp, Path: p2, AfterImport: true})
							}
						}
						mu.Lock()
						rep.Replayed++
						rep.ByType["afterImport:"+eventType(ed2.E)]++
						mu.Unlock()
					}
				} else {
					budget := 2000
					visitDivergedFrom(n, f, append(pathTo(n), ed.E), &budget)
				}
			}
			if isChild[ed] && (!top || depth[ed.To] < cut) {
				if good {
					visit(ed.To, f, top)
				} else {
					mu.Lock()
					rep.Skipped++
					mu.Unlock()
					if ok && ed.OK {
						budget := 20000
						visitDiverged(ed.To, f, top, &budget)
					}
				}
			}
		}
	}
	type unit struct {
		node int
		top  bool
	}
	units := make(chan unit, len(byDepth[cut])+1)
	if cut > 0 {
		units <- unit{root, true}
		for _, n := range byDepth[cut] {
			units <- unit{n, false}
		}
	} else {
		units <- unit{root, false}
	}
	close(units)
	var wg sync.WaitGroup
	for w := 0; w < nw; w++ {
		wg.Add(1)
		go func(w int) {
			defer wg.Done()
			var base Impl
			for u := range units {
				if base == nil {
					if w == 0 {
						base = init
					} else {
						base = newImpl()
					}
				}
				im := base.Fork()
				okPath := true
				if !u.top {
					// re-execute the tree path to the cut node on this worker's own instance
					var path []*Edge
					for e := parent[u.node]; e != nil; e = parent[e.From] {
						path = append([]*Edge{e}, path...)
					}
					for _, e := range path {
						if ok, _, _ := im.Exec(e.E); !ok {
							okPath = false // already reported by the unit that owns that edge
							break
						}
					}
					if okPath && absx.Canon(im.Project()) != absx.Canon(g.States[u.node]) {
						// the path ran but ended in a different state (reported by the unit that owns the diverging edge)
						mu.Lock()
						rep.Skipped++
						mu.Unlock()
						budget := 20000
						visitDiverged(u.node, im, false, &budget)
						continue
					}
				}
				if !okPath {
					mu.Lock()
					rep.Skipped++
					mu.Unlock()
					continue
				}
				visit(u.node, im, u.top)
			}
		}(w)
	}
	wg.Wait()
	sort.SliceStable(rep.Mismatches, func(i, j int) bool { return len(rep.Mismatches[i].Path) < len(rep.Mismatches[j].Path) })
	return rep
}

// mustComplete: transfers whose completion the properties promise (C04: a recorded withdrawal can be claimed, C07: a deposit
// at the expected sequence is processed).  Below a diverged edge their rejection is recorded too.
func mustComplete(e M) bool {
	t := eventType(e)
	return strings.HasSuffix(t, "FinalizeTokenWithdrawal") || strings.HasSuffix(t, "FinalizeTokenDeposit")
}

func eventType(e M) string {
	if t, ok := e["type"]; ok {
		return absx.Str(t)
	}
	if inner, ok := e["e"].(M); ok {
		return absx.Str(e["chain"]) + "." + absx.Str(inner["type"])
	}
	return "?"
}

func dig(v any, path string) any {
	cur := v
	for _, k := range strings.Split(path, ".") {
		m, ok := cur.(M)
		if !ok {
			return nil
		}
		cur = m[k]
	}
	return cur
}
