// Package walk replays the transitions of a bounded TLA+ model (as emitted by TLC through the
// ACTION_CONSTRAINT Emit of the MC_* modules) on a real implementation.  The state graph is walked
// along its breadth-first spanning tree with store branching; every edge of the graph (tree edge or
// not, succeeding or failing) is executed once on the real code from a real state that projects to the
// edge's source state, and result, response and projected post-state are compared.
package walk

import (
	"bufio"
	"encoding/json"
	"fmt"
	"os"
	"sort"
	"strings"

	"verifharness/absx"
)

type M = absx.M

// Impl is the implementation side of the binding.
type Impl interface {
	Fork() Impl
	Exec(e M) (ok bool, resp M, errStr string)
	Project() M
}

type Edge struct {
	From, To int
	E        M
	OK       bool
	Resp     M
	Failed   []string
}

type Graph struct {
	Meta   M
	States []M // canonical state by id
	index  map[string]int
	Out    map[int][]*Edge
	NEdges int
}

func (g *Graph) id(st any) int {
	c := absx.Canon(st)
	if i, ok := g.index[c]; ok {
		return i
	}
	i := len(g.States)
	g.index[c] = i
	g.States = append(g.States, absx.Map(absx.Norm(st)))
	return i
}

// Load parses TLC's output: lines are TLA+ string literals `"EDGE {json}"` / `"META {json}"`.
func Load(path string) (*Graph, error) {
	fh, err := os.Open(path)
	if err != nil {
		return nil, err
	}
	defer fh.Close()
	g := &Graph{index: map[string]int{}, Out: map[int][]*Edge{}}
	sc := bufio.NewScanner(fh)
	sc.Buffer(make([]byte, 1<<20), 1<<28)
	for sc.Scan() {
		line := sc.Text()
		if !strings.HasPrefix(line, `"EDGE `) && !strings.HasPrefix(line, `"META `) {
			continue
		}
		var s string
		if err := json.Unmarshal([]byte(line), &s); err != nil {
			return nil, fmt.Errorf("bad line: %w", err)
		}
		var obj map[string]any
		if err := json.Unmarshal([]byte(s[5:]), &obj); err != nil {
			return nil, fmt.Errorf("bad json: %w", err)
		}
		if s[:4] == "META" {
			g.Meta = absx.Map(absx.Norm(obj))
			continue
		}
		ed := &Edge{From: g.id(obj["from"]), E: absx.Map(absx.Norm(obj["e"])), OK: absx.Bool(obj["ok"]), Resp: absx.Map(absx.Norm(obj["resp"]))}
		for _, f := range absx.List(absx.Norm(obj["failed"])) {
			ed.Failed = append(ed.Failed, absx.Str(f))
		}
		sort.Strings(ed.Failed)
		if ed.OK {
			ed.To = g.id(obj["to"])
		} else {
			ed.To = ed.From
		}
		g.Out[ed.From] = append(g.Out[ed.From], ed)
		g.NEdges++
	}
	return g, sc.Err()
}

type Mismatch struct {
	Kind    string   `json:"kind"` // result | resp | state | init
	Event   M        `json:"event"`
	SpecOK  bool     `json:"spec_ok"`
	ImplOK  bool     `json:"impl_ok"`
	Failed  []string `json:"failed_guards,omitempty"`
	ImplErr string   `json:"impl_err,omitempty"`
	Fields  []string `json:"fields,omitempty"`
	Detail  M        `json:"detail,omitempty"`
	Path    []M      `json:"path"` // events from the initial state to the source state of the edge
}

type Report struct {
	States       int        `json:"states"`
	Edges        int        `json:"edges"`
	EdgesOK      int        `json:"edges_ok"`
	Replayed     int        `json:"replayed"`
	Unreached    int        `json:"unreached_states"`
	Skipped      int        `json:"skipped_subtrees"`
	ByType       map[string]int `json:"by_type"`
	Mismatches   []Mismatch `json:"mismatches"`
	NMismatch    int        `json:"n_mismatch"`
	Samples      []M        `json:"samples"`
}

// Walk replays every edge reachable from the state `init` projects to.
func Walk(g *Graph, init Impl, maxKeep int) *Report {
	rep := &Report{States: len(g.States), Edges: g.NEdges, ByType: map[string]int{}}
	s0 := init.Project()
	root, ok := g.index[absx.Canon(s0)]
	if !ok {
		var fields []string
		if len(g.States) > 0 {
			fields = absx.Diff(g.States[0], s0)
		}
		rep.NMismatch++
		rep.Mismatches = append(rep.Mismatches, Mismatch{Kind: "init", Fields: fields, Detail: M{"impl": s0}})
		return rep
	}
	// breadth-first spanning tree
	parent := map[int]*Edge{root: nil}
	queue := []int{root}
	children := map[int][]*Edge{}
	for len(queue) > 0 {
		n := queue[0]
		queue = queue[1:]
		for _, ed := range g.Out[n] {
			if !ed.OK {
				continue
			}
			if _, seen := parent[ed.To]; !seen {
				parent[ed.To] = ed
				children[n] = append(children[n], ed)
				queue = append(queue, ed.To)
			}
		}
	}
	rep.Unreached = len(g.States) - len(parent)
	pathTo := func(n int) []M {
		var p []M
		for e := parent[n]; e != nil; e = parent[e.From] {
			p = append([]M{e.E}, p...)
		}
		return p
	}
	add := func(m Mismatch) {
		rep.NMismatch++
		if len(rep.Mismatches) < maxKeep {
			rep.Mismatches = append(rep.Mismatches, m)
		}
	}
	var visit func(n int, im Impl)
	visit = func(n int, im Impl) {
		isChild := map[*Edge]bool{}
		for _, c := range children[n] {
			isChild[c] = true
		}
		for _, ed := range g.Out[n] {
			f := im.Fork()
			ok, resp, errStr := f.Exec(ed.E)
			rep.Replayed++
			rep.ByType[absx.Str(ed.E["type"])]++
			if ed.OK {
				rep.EdgesOK++
			}
			if len(rep.Samples) < 3 && ed.OK && rep.Replayed%97 == 1 {
				rep.Samples = append(rep.Samples, M{"event": ed.E, "spec_ok": ed.OK, "impl_ok": ok, "resp": resp})
			}
			good := true
			if ok != ed.OK {
				add(Mismatch{Kind: "result", Event: ed.E, SpecOK: ed.OK, ImplOK: ok, Failed: ed.Failed, ImplErr: errStr, Path: pathTo(n)})
				good = false
			} else if ok {
				if d := absx.Diff(ed.Resp, resp); len(d) > 0 {
					add(Mismatch{Kind: "resp", Event: ed.E, SpecOK: true, ImplOK: true, Fields: d, Detail: M{"spec": ed.Resp, "impl": resp}, Path: pathTo(n)})
				}
				st := f.Project()
				if d := absx.Diff(g.States[ed.To], st); len(d) > 0 {
					det := M{}
					for i, p := range d {
						if i < 6 {
							det[p] = M{"spec": dig(g.States[ed.To], p), "impl": dig(st, p)}
						}
					}
					add(Mismatch{Kind: "state", Event: ed.E, SpecOK: true, ImplOK: true, Fields: d, Detail: det, Path: pathTo(n)})
					good = false
				}
			}
			if isChild[ed] {
				if good {
					visit(ed.To, f)
				} else {
					rep.Skipped++
				}
			}
		}
	}
	visit(root, init)
	return rep
}

func dig(v any, path string) any {
	cur := v
	for _, k := range strings.Split(path, ".") {
		m, ok := cur.(M)
		if !ok {
			return nil
		}
		cur = m[k]
	}
	return cur
}
