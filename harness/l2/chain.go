package l2

import (
	"bytes"
	"context"
	"fmt"
	"math/big"
	"os"
	"sort"
	"strconv"
	"strings"

	abci "github.com/cometbft/cometbft/abci/types"

	"cosmossdk.io/math"
	storetypes "cosmossdk.io/store/types"
	clienttx "github.com/cosmos/cosmos-sdk/client/tx"
	cryptotypes "github.com/cosmos/cosmos-sdk/crypto/types"
	sdk "github.com/cosmos/cosmos-sdk/types"
	"github.com/cosmos/cosmos-sdk/types/tx/signing"
	authsign "github.com/cosmos/cosmos-sdk/x/auth/signing"
	authtypes "github.com/cosmos/cosmos-sdk/x/auth/types"
	banktypes "github.com/cosmos/cosmos-sdk/x/bank/types"

	opchildtypes "github.com/initia-labs/OPinit/x/opchild/types"
	ophosttypes "github.com/initia-labs/OPinit/x/ophost/types"

	"verifharness/absx"
	"verifharness/l1"
)

type M = absx.M

type RunCfg struct {
	Accts   []string
	Denoms  []string
	Funded  M // account -> denom -> units
	Params  M // initial abstract params
	Devs    []string
	PreMeta []string // bridged denoms that already carry bank metadata before their first deposit (set at genesis or by another module)
}

type Chain struct {
	NoGasProbe bool // skip the differential gas measurement of deposits (determinism replicas)
	F          *Fixture
	Ctx        sdk.Context
	C          *l1.Conc
	Cfg        RunCfg
	V          *ValState  // only for validator-set runs
	O          *OracleCfg // only for oracle runs
}

var hookGas = map[string]uint64{"ample": 1_000_000, "tiny": 500, "zero": 0}

func hookGasName(v uint64) any {
	for k, g := range hookGas {
		if g == v {
			return k
		}
	}
	return "?" + strconv.FormatUint(v, 10)
}

func (ch *Chain) params(p M) opchildtypes.Params {
	c := ch.C
	out := opchildtypes.DefaultParams()
	out.Admin = c.Addr(absx.Str(p["admin"]))
	out.BridgeExecutors = nil
	for _, e := range absx.List(p["execs"]) {
		out.BridgeExecutors = append(out.BridgeExecutors, c.Addr(absx.Str(e)))
	}
	out.MaxValidators = uint32(absx.Int(p["maxVals"]))
	out.HistoricalEntries = uint32(absx.Int(p["histEntries"]))
	out.HookMaxGas = hookGas[absx.Str(p["hookGas"])]
	out.FeeWhitelist = []string{}
	for _, e := range absx.List(p["fw"]) {
		out.FeeWhitelist = append(out.FeeWhitelist, c.Addr(absx.Str(e)))
	}
	return out
}

func (ch *Chain) paramsName(p opchildtypes.Params) M {
	c := ch.C
	execs := []any{}
	for _, e := range p.BridgeExecutors {
		execs = append(execs, c.AddrName(e))
	}
	fw := []any{}
	for _, e := range p.FeeWhitelist {
		fw = append(fw, c.AddrName(e))
	}
	return M{"admin": c.AddrName(p.Admin), "execs": execs, "maxVals": int64(p.MaxValidators), "histEntries": int64(p.HistoricalEntries),
		"hookGas": hookGasName(p.HookMaxGas), "fw": fw}
}

func NewChain(c *l1.Conc, cfg RunCfg) *Chain {
	f, ctx := NewFixture()
	ch := &Chain{F: f, Ctx: ctx, C: c, Cfg: cfg}
	for _, d := range cfg.Denoms {
		cd := c.Denom(d)
		pre := false
		for _, x := range cfg.PreMeta {
			pre = pre || x == d
		}
		if strings.HasPrefix(d, "n") || pre { // native L2 tokens have bank metadata of their own (as a token-factory or genesis token would)
			f.Bank.SetDenomMetaData(ctx, banktypes.Metadata{Base: cd, Display: cd, Symbol: cd, Name: cd + " native", Description: "native L2 token",
				DenomUnits: []*banktypes.DenomUnit{{Denom: cd, Exponent: 0}}})
		}
	}
	*f.PanicTo = c.Addr("panic")
	for _, a := range cfg.Accts {
		s := c.Addr(a)
		if a == "opchild" || a == "feecollector" {
			continue
		}
		addr, err := sdk.AccAddressFromBech32(s)
		if err != nil {
			continue
		}
		if !f.Account.HasAccount(ctx, addr) {
			f.Account.SetAccount(ctx, f.Account.NewAccountWithAddress(ctx, addr))
		}
	}
	for a, row := range cfg.Funded {
		var coins sdk.Coins
		for d, n := range absx.Map(row) {
			if absx.Int(n) > 0 {
				coins = coins.Add(sdk.NewCoin(c.Denom(d), math.NewIntFromBigInt(c.Amount(absx.Int(n)))))
			}
		}
		if len(coins) > 0 {
			if a == "feecollector" {
				if err := f.Bank.MintCoins(ctx, authtypes.Minter, coins); err != nil {
					panic(err)
				}
				if err := f.Bank.SendCoinsFromModuleToModule(ctx, authtypes.Minter, authtypes.FeeCollectorName, coins); err != nil {
					panic(err)
				}
			} else {
				f.Mint(ctx, c.AddrBytes(a), coins)
			}
		}
	}
	if err := f.Child.SetParams(ctx, ch.params(cfg.Params)); err != nil {
		panic(err)
	}
	return ch
}

func (ch *Chain) Fork() *Chain {
	cc, _ := ch.Ctx.CacheContext()
	return &Chain{F: ch.F, Ctx: cc, C: ch.C, Cfg: ch.Cfg, V: ch.V.clone(), O: ch.O, NoGasProbe: ch.NoGasProbe}
}

// SpecFork is a branch as a node's speculative execution makes it (optimistic execution, a proposal that is later
// abandoned): the store is branched, but everything the process keeps in memory - here the registry of executor-change
// plans - is the node's one copy.
func (ch *Chain) SpecFork() *Chain {
	f := ch.Fork()
	if f.V != nil && ch.V != nil {
		f.V.Plans = ch.V.Plans
	}
	return f
}

type Outcome struct {
	OK   bool
	Resp M
	Err  string
}

func coin(c *l1.Conc, denom string, units int64) sdk.Coin {
	return sdk.Coin{Denom: c.Denom(denom), Amount: math.NewIntFromBigInt(c.Amount(units))}
}

// buildTx signs msgs with priv (or, for badSig, with an unrelated key while announcing priv's public key).
func (ch *Chain) buildTx(msgs []sdk.Msg, priv cryptotypes.PrivKey, accNum, seq uint64, badSig bool) []byte {
	txConfig := ch.F.TxConfig
	b := txConfig.NewTxBuilder()
	if err := b.SetMsgs(msgs...); err != nil {
		panic(err)
	}
	b.SetGasLimit(500_000)
	mode, err := authsign.APISignModeToInternal(txConfig.SignModeHandler().DefaultMode())
	if err != nil {
		panic(err)
	}
	if err := b.SetSignatures(signing.SignatureV2{PubKey: priv.PubKey(), Data: &signing.SingleSignatureData{SignMode: mode}, Sequence: seq}); err != nil {
		panic(err)
	}
	signer := authsign.SignerData{Address: sdk.AccAddress(priv.PubKey().Address()).String(), ChainID: ch.Ctx.ChainID(), AccountNumber: accNum, Sequence: seq, PubKey: priv.PubKey()}
	signKey := priv
	if badSig {
		signKey = ch.C.PrivKey("some-other-key")
	}
	sig, err := clienttx.SignWithPrivKey(context.TODO(), mode, signer, b, signKey, txConfig, seq)
	if err != nil {
		panic(err)
	}
	sig.PubKey = priv.PubKey()
	if err := b.SetSignatures(sig); err != nil {
		panic(err)
	}
	bz, err := txConfig.TxEncoder()(b.GetTx())
	if err != nil {
		panic(err)
	}
	return bz
}

func (ch *Chain) hookBytes(h M) []byte {
	c := ch.C
	switch absx.Str(h["kind"]) {
	case "none":
		return nil
	case "undecodable":
		out := []byte("\xff\xfe this is not a transaction \x00\x01")
		pad := 0
		if v, ok := h["pad"]; ok && v != nil {
			pad = int(absx.Int(v))
		}
		for n := pad; len(out) < n; {
			out = append(out, 0xff)
		}
		return out
	case "badSig", "msgs":
		name := absx.Str(h["signer"])
		priv := c.PrivKey(name)
		acc := ch.F.Account.GetAccount(ch.Ctx, c.AddrBytes(name))
		var accNum, seq uint64
		if acc != nil {
			accNum, seq = acc.GetAccountNumber(), acc.GetSequence()
		}
		var msgs []sdk.Msg
		for _, m := range absx.List(h["msgs"]) {
			mm := absx.Map(m)
			if absx.Str(mm["kind"]) == "deposit" {
				dm := &opchildtypes.MsgFinalizeTokenDeposit{Sender: c.Addr(name), From: c.Addr(absx.Str(mm["from"])), To: c.Addr(absx.Str(mm["to"])),
					Amount: coin(c, absx.Str(mm["denom"]), absx.Int(mm["amt"])), Sequence: uint64(absx.Int(mm["seq"])), Height: uint64(absx.Int(mm["height"])), BaseDenom: c.Denom(absx.Str(mm["base"]))}
				if hk, ok := mm["hook"]; ok { // a hook inside the hook
					dm.Data = ch.hookBytes(absx.Map(hk))
				}
				msgs = append(msgs, dm)
				continue
			}
			if absx.Str(mm["kind"]) == "withdraw" {
				msgs = append(msgs, &opchildtypes.MsgInitiateTokenWithdrawal{Sender: c.Addr(name), To: c.Addr(absx.Str(mm["to"])), Amount: coin(c, absx.Str(mm["denom"]), absx.Int(mm["amt"]))})
				continue
			}
			msgs = append(msgs, &banktypes.MsgSend{FromAddress: c.Addr(name), ToAddress: c.Addr(absx.Str(mm["to"])),
				Amount: sdk.Coins{coin(c, absx.Str(mm["denom"]), absx.Int(mm["amt"]))}})
		}
		if len(msgs) == 0 {
			msgs = append(msgs, &banktypes.MsgSend{FromAddress: c.Addr(name), ToAddress: c.Addr(name), Amount: sdk.Coins{}})
		}
		return ch.buildTx(msgs, priv, accNum, seq, absx.Str(h["kind"]) == "badSig")
	}
	panic("unknown hook kind " + absx.Str(h["kind"]))
}

func attr(evs []abci.Event, ty, key string) (string, int) {
	n := 0
	val := ""
	for _, e := range evs {
		if e.Type != ty {
			continue
		}
		n++
		for _, a := range e.Attributes {
			if a.Key == key {
				val = a.Value
			}
		}
	}
	return val, n
}

func atoi(s string) any {
	if v, err := strconv.ParseInt(s, 10, 64); err == nil {
		return v
	}
	return "?" + s
}

func (ch *Chain) unitsStr(s string) any {
	v, ok := new(big.Int).SetString(s, 10)
	if !ok {
		return "?" + s
	}
	return ch.C.UnitsAny(v)
}

// withdrawEvents returns every initiate_token_withdrawal event of a result, in emission order.
func (ch *Chain) withdrawEvents(evs []abci.Event) []M {
	c := ch.C
	var out []M
	for _, e := range evs {
		if e.Type != opchildtypes.EventTypeInitiateTokenWithdrawal {
			continue
		}
		get := func(k string) string {
			for _, a := range e.Attributes {
				if a.Key == k {
					return a.Value
				}
			}
			return ""
		}
		out = append(out, M{"seq": atoi(get(opchildtypes.AttributeKeyL2Sequence)), "from": c.AddrName(get(opchildtypes.AttributeKeyFrom)), "to": c.AddrName(get(opchildtypes.AttributeKeyTo)),
			"denom": c.DenomName(get(opchildtypes.AttributeKeyDenom)), "base": c.DenomName(get(opchildtypes.AttributeKeyBaseDenom)), "amt": ch.unitsStr(get(opchildtypes.AttributeKeyAmount))})
	}
	return out
}

// depositWithdrawals splits the withdrawals announced by a processed deposit into those made by the hook's own
// messages and the refund (the last one, present iff the deposit event says success=false).
func (ch *Chain) depositWithdrawals(evs []abci.Event, success bool) (wd M, hookWds []any) {
	all := ch.withdrawEvents(evs)
	hookWds = []any{}
	wd = M{"some": false}
	if !success {
		if len(all) == 0 {
			return M{"some": false, "missing": true}, hookWds
		}
		wd = all[len(all)-1]
		wd["some"] = true
		all = all[:len(all)-1]
	}
	for _, w := range all {
		hookWds = append(hookWds, w)
	}
	return wd, hookWds
}

func (ch *Chain) withdrawEvent(evs []abci.Event) M {
	c := ch.C
	get := func(k string) string { v, _ := attr(evs, opchildtypes.EventTypeInitiateTokenWithdrawal, k); return v }
	_, n := attr(evs, opchildtypes.EventTypeInitiateTokenWithdrawal, opchildtypes.AttributeKeyL2Sequence)
	if n == 0 {
		return M{"some": false}
	}
	if n > 1 {
		return M{"some": true, "count": int64(n)}
	}
	return M{"some": true, "seq": atoi(get(opchildtypes.AttributeKeyL2Sequence)), "from": c.AddrName(get(opchildtypes.AttributeKeyFrom)), "to": c.AddrName(get(opchildtypes.AttributeKeyTo)),
		"denom": c.DenomName(get(opchildtypes.AttributeKeyDenom)), "base": c.DenomName(get(opchildtypes.AttributeKeyBaseDenom)), "amt": ch.unitsStr(get(opchildtypes.AttributeKeyAmount))}
}

func (ch *Chain) bridgeInfo(info M) opchildtypes.BridgeInfo {
	c := ch.C
	cfg := ophosttypes.BridgeConfig{Challenger: c.Addr("c1"), Proposer: c.Addr("p1"),
		BatchInfo:          ophosttypes.BatchInfo{Submitter: "submitter", ChainType: ophosttypes.BatchInfo_CHAIN_TYPE_INITIA},
		SubmissionInterval: 1e9, FinalizationPeriod: 1e9, SubmissionStartHeight: 1, OracleEnabled: absx.Bool(info["oracle"])}
	if !absx.Bool(info["cfgOK"]) {
		cfg.Proposer = ""
	}
	addr := absx.Str(info["addr"])
	if addr != "" {
		addr = "bridge-addr-" + addr
	}
	return opchildtypes.BridgeInfo{BridgeId: uint64(absx.Int(info["id"])), BridgeAddr: addr, L1ChainId: absx.Str(info["chain"]), L1ClientId: absx.Str(info["client"]), BridgeConfig: cfg}
}

// toMsg converts an abstract event into the message it stands for (used directly and inside ExecuteMessages).
func (ch *Chain) toMsg(e M) sdk.Msg {
	c := ch.C
	signer := ""
	if s, ok := e["signer"]; ok {
		signer = c.Addr(absx.Str(s))
	}
	switch absx.Str(e["type"]) {
	case "FinalizeTokenDeposit":
		return &opchildtypes.MsgFinalizeTokenDeposit{Sender: signer, From: c.Addr(absx.Str(e["from"])), To: c.Addr(absx.Str(e["to"])),
			Amount: coin(c, absx.Str(e["denom"]), absx.Int(e["amt"])), Sequence: uint64(absx.Int(e["seq"])), Height: uint64(absx.Int(e["height"])),
			BaseDenom: c.Denom(absx.Str(e["base"])), Data: ch.hookBytes(absx.Map(e["hook"]))}
	case "InitiateTokenWithdrawal":
		return &opchildtypes.MsgInitiateTokenWithdrawal{Sender: signer, To: c.Addr(absx.Str(e["to"])), Amount: coin(c, absx.Str(e["denom"]), absx.Int(e["amt"]))}
	case "SetBridgeInfo":
		return &opchildtypes.MsgSetBridgeInfo{Sender: signer, BridgeInfo: ch.bridgeInfo(absx.Map(e["info"]))}
	case "UpdateParams":
		p := ch.params(absx.Map(e["params"]))
		return &opchildtypes.MsgUpdateParams{Authority: signer, Params: &p}
	case "SpendFeePool":
		return &opchildtypes.MsgSpendFeePool{Authority: signer, Recipient: c.Addr(absx.Str(e["to"])), Amount: sdk.Coins{coin(c, absx.Str(e["denom"]), absx.Int(e["amt"]))}}
	case "BankSend":
		return &banktypes.MsgSend{FromAddress: signer, ToAddress: c.Addr(absx.Str(e["to"])), Amount: sdk.Coins{coin(c, absx.Str(e["denom"]), absx.Int(e["amt"]))}}
	case "AddValidator":
		msg, err := opchildtypes.NewMsgAddValidator("moniker-"+absx.Str(e["op"]), signer, ch.valoper(absx.Str(e["op"])), ch.consKey(absx.Str(e["key"])))
		if err != nil {
			panic(err)
		}
		return msg
	case "RemoveValidator":
		msg, _ := opchildtypes.NewMsgRemoveValidator(signer, ch.valoper(absx.Str(e["op"])))
		return msg
	}
	panic("no message for event type " + absx.Str(e["type"]))
}

// Exec runs one abstract event on the real chain and commits it on success.
func (ch *Chain) Exec(e M) Outcome {
	c := ch.C
	f := ch.F
	ty := absx.Str(e["type"])
	fail := func(r Result) Outcome { return Outcome{OK: false, Err: r.ErrString()} }
	f.LastRaw = ""
	if ch.V != nil {
		f.Child.ExecutorChangePlans = ch.V.Plans
	}
	switch ty {
	case "FinalizeTokenDeposit":
		switch absx.Str(e["fault"]) {
		case "mintErr":
			*f.Fault = Fault{Method: "MintCoins", Armed: true}
		case "mintPanic":
			*f.Fault = Fault{Method: "MintCoins", Panic: true, Armed: true}
		case "sendErr":
			*f.Fault = Fault{Method: "SendCoinsFromModuleToAccount", Armed: true}
		case "sendPanic":
			*f.Fault = Fault{Method: "SendCoinsFromModuleToAccount", Panic: true, Armed: true}
		}
		hookGasOK := true
		if !ch.NoGasProbe { // replicas (C18) execute a history exactly once: no measuring runs before the real one
			hookGasOK = ch.hookGasWithinBound(e)
		}
		r := Deliver(f, ch.Ctx, ch.toMsg(e))
		*f.Fault = Fault{}
		if !r.OK {
			return fail(r)
		}
		res := r.Resp.(*opchildtypes.MsgFinalizeTokenDepositResponse)
		if res.Result == opchildtypes.NOOP {
			return Outcome{OK: true, Resp: M{"result": "NOOP"}}
		}
		// every finalize_token_deposit event of the transaction in emission order; the last one is this deposit's own
		// (deposits delivered from inside the hook announce theirs when the hook is committed, before it)
		var depEvs []any
		for _, e := range r.Events {
			if e.Type != opchildtypes.EventTypeFinalizeTokenDeposit {
				continue
			}
			g := func(k string) string {
				for _, a := range e.Attributes {
					if a.Key == k {
						return a.Value
					}
				}
				return ""
			}
			depEvs = append(depEvs, M{"seq": atoi(g(opchildtypes.AttributeKeyL1Sequence)), "denom": c.DenomName(g(opchildtypes.AttributeKeyDenom)), "amt": ch.unitsStr(g(opchildtypes.AttributeKeyAmount)),
				"success": g(opchildtypes.AttributeKeySuccess) == "true"})
		}
		get := func(k string) string { v, _ := attr(r.Events, opchildtypes.EventTypeFinalizeTokenDeposit, k); return v }
		n := len(depEvs)
		ev := M{"count": int64(n)}
		if n >= 1 {
			ev = M{"seq": atoi(get(opchildtypes.AttributeKeyL1Sequence)), "from": c.AddrName(get(opchildtypes.AttributeKeySender)), "to": c.AddrName(get(opchildtypes.AttributeKeyRecipient)),
				"denom": c.DenomName(get(opchildtypes.AttributeKeyDenom)), "base": c.DenomName(get(opchildtypes.AttributeKeyBaseDenom)), "amt": ch.unitsStr(get(opchildtypes.AttributeKeyAmount)),
				"height": atoi(get(opchildtypes.AttributeKeyFinalizeHeight)), "success": get(opchildtypes.AttributeKeySuccess) == "true"}
		}
		wd, hookWds := ch.depositWithdrawals(r.Events, n < 1 || absx.Bool(ev["success"]))
		if depEvs == nil {
			depEvs = []any{}
		}
		return Outcome{OK: true, Resp: M{"result": map[string]string{"RESPONSE_RESULT_TYPE_SUCCESS": "SUCCESS", "RESPONSE_RESULT_TYPE_NOOP": "NOOP"}[res.Result.String()], "ev": ev,
			"wd": wd, "hookWds": hookWds, "depEvs": depEvs, "hookGasOK": hookGasOK}}
	case "InitiateTokenWithdrawal":
		r := Deliver(f, ch.Ctx, ch.toMsg(e))
		if !r.OK {
			return fail(r)
		}
		wd := ch.withdrawEvent(r.Events)
		delete(wd, "some")
		return Outcome{OK: true, Resp: M{"seq": int64(r.Resp.(*opchildtypes.MsgInitiateTokenWithdrawalResponse).Sequence), "ev": wd}}
	case "SetBridgeInfo":
		r := Deliver(f, ch.Ctx, ch.toMsg(e))
		if !r.OK {
			return fail(r)
		}
		get := func(k string) string { v, _ := attr(r.Events, opchildtypes.EventTypeSetBridgeInfo, k); return v }
		if _, n := attr(r.Events, opchildtypes.EventTypeSetBridgeInfo, opchildtypes.AttributeKeyBridgeId); n != 1 {
			return Outcome{OK: true, Resp: M{"id": fmt.Sprintf("?%d events", n)}}
		}
		addr := get(opchildtypes.AttributeKeyBridgeAddr) // as emitted; the fixture spells bridge address X as "bridge-addr-X"
		if len(addr) > len("bridge-addr-") && addr[:len("bridge-addr-")] == "bridge-addr-" {
			addr = addr[len("bridge-addr-"):]
		}
		return Outcome{OK: true, Resp: M{"id": atoi(get(opchildtypes.AttributeKeyBridgeId)), "addr": addr, "chain": get(opchildtypes.AttributeKeyL1ChainId), "client": get(opchildtypes.AttributeKeyL1ClientId)}}
	case "UpdateParams", "SpendFeePool":
		r := Deliver(f, ch.Ctx, ch.toMsg(e))
		if !r.OK {
			return fail(r)
		}
		return Outcome{OK: true, Resp: M{"ok": true}}
	case "BankSend":
		r := Deliver(f, ch.Ctx, ch.toMsg(e))
		if !r.OK {
			return fail(r)
		}
		return Outcome{OK: true, Resp: M{"amt": absx.Int(e["amt"])}}
	case "AddValidator", "RemoveValidator":
		r := Deliver(f, ch.Ctx, ch.toMsg(e))
		if !r.OK {
			return fail(r)
		}
		evType := map[string]string{"AddValidator": opchildtypes.EventTypeAddValidator, "RemoveValidator": opchildtypes.EventTypeRemoveValidator}[ty]
		v, n := attr(r.Events, evType, opchildtypes.AttributeKeyValidator)
		if n != 1 {
			return Outcome{OK: true, Resp: M{"op": fmt.Sprintf("?%d events", n)}}
		}
		return Outcome{OK: true, Resp: M{"op": ch.opName(v)}} // the operator named by the emitted event
	case "ExecuteMessages":
		var inner []sdk.Msg
		for _, m := range absx.List(e["msgs"]) {
			inner = append(inner, ch.toMsg(absx.Map(m)))
		}
		msg, err := opchildtypes.NewMsgExecuteMessages(c.Addr(absx.Str(e["signer"])), inner)
		if err != nil {
			panic(err)
		}
		r := Deliver(f, ch.Ctx, msg)
		if !r.OK {
			return fail(r)
		}
		return Outcome{OK: true, Resp: M{"n": int64(len(inner))}}
	case "ExportImport":
		same, err := ch.ExportImport()
		if err != nil {
			return Outcome{OK: false, Err: err.Error()}
		}
		return Outcome{OK: true, Resp: M{"same": same}}
	case "Query":
		if out, ok := ch.queryBridge(e); ok {
			return out
		}
	}
	if out, ok := ch.execVal(e); ok {
		return out
	}
	if out, ok := ch.execOracle(e); ok {
		return out
	}
	panic("unknown event type " + ty)
}

// queryBridge answers the gRPC queries of the bridge part of x/opchild (validator queries: queryVal).
func (ch *Chain) queryBridge(e M) (Outcome, bool) {
	f, ctx, c := ch.F, ch.Ctx, ch.C
	fail := func(err error) (Outcome, bool) { return Outcome{OK: false, Err: err.Error()}, true }
	switch absx.Str(e["q"]) {
	case "NextL1Sequence":
		r, err := f.Querier.NextL1Sequence(ctx, &opchildtypes.QueryNextL1SequenceRequest{})
		if err != nil {
			return fail(err)
		}
		return Outcome{OK: true, Resp: M{"v": int64(r.NextL1Sequence)}}, true
	case "NextL2Sequence":
		r, err := f.Querier.NextL2Sequence(ctx, &opchildtypes.QueryNextL2SequenceRequest{})
		if err != nil {
			return fail(err)
		}
		return Outcome{OK: true, Resp: M{"v": int64(r.NextL2Sequence)}}, true
	case "BaseDenom":
		r, err := f.Querier.BaseDenom(ctx, &opchildtypes.QueryBaseDenomRequest{Denom: c.Denom(absx.Str(e["denom"]))})
		if err != nil {
			return fail(err)
		}
		return Outcome{OK: true, Resp: M{"v": c.DenomName(r.BaseDenom)}}, true
	case "BridgeInfo":
		r, err := f.Querier.BridgeInfo(ctx, &opchildtypes.QueryBridgeInfoRequest{})
		if err != nil {
			return fail(err)
		}
		addr := r.BridgeInfo.BridgeAddr
		if len(addr) > len("bridge-addr-") && addr[:len("bridge-addr-")] == "bridge-addr-" {
			addr = addr[len("bridge-addr-"):]
		}
		return Outcome{OK: true, Resp: M{"id": int64(r.BridgeInfo.BridgeId), "addr": addr, "chain": r.BridgeInfo.L1ChainId, "client": r.BridgeInfo.L1ClientId, "oracle": r.BridgeInfo.BridgeConfig.OracleEnabled}}, true
	case "Params":
		if ch.V != nil {
			return Outcome{}, false // the validator model answers it (queryVal)
		}
		r, err := f.Querier.Params(ctx, &opchildtypes.QueryParamsRequest{})
		if err != nil {
			return fail(err)
		}
		return Outcome{OK: true, Resp: ch.paramsName(r.Params)}, true
	}
	return Outcome{}, false
}

type logMeter struct {
	storetypes.GasMeter
	log *[]string
}

func (m logMeter) ConsumeGas(amount storetypes.Gas, descriptor string) {
	*m.log = append(*m.log, fmt.Sprintf("%s:%d", descriptor, amount))
	m.GasMeter.ConsumeGas(amount, descriptor)
}

// hookGasWithinBound measures, on branches of the current state, the gas the handler charges for the hook of
// deposit e: gas(handler with the hook) - gas(same deposit with a hook that fails before running anything, or
// with no hook when the hook succeeds).  The difference must not exceed the configured HookMaxGas (C07).
func (ch *Chain) hookGasWithinBound(e M) bool {
	hook := absx.Map(e["hook"])
	if k := absx.Str(hook["kind"]); k == "none" || k == "undecodable" {
		return true
	}
	gasOf := func(ev M) (uint64, bool, bool) {
		fork := ch.Fork()
		msg := fork.toMsg(ev) // built before the meter is installed: signing the hook transaction reads the signer's account
		fork.Ctx = fork.Ctx.WithGasMeter(storetypes.NewGasMeter(500_000_000))
		if os.Getenv("VERIF_DEBUG_GAS") != "" {
			var lg []string
			fork.Ctx = fork.Ctx.WithGasMeter(logMeter{storetypes.NewGasMeter(500_000_000), &lg})
			defer func() { fmt.Fprintf(os.Stderr, "GASLOG %v %v\n", absx.Map(ev["hook"])["kind"], lg) }()
		}
		r := Deliver(fork.F, fork.Ctx, msg)
		if !r.OK {
			return 0, false, false
		}
		succ, _ := attr(r.Events, opchildtypes.EventTypeFinalizeTokenDeposit, opchildtypes.AttributeKeySuccess)
		return fork.Ctx.GasMeter().GasConsumed(), succ == "true", true
	}
	with, success, ok := gasOf(e)
	if !ok {
		return true // the message itself is rejected; nothing to measure
	}
	base := M{}
	for k, v := range e {
		base[k] = v
	}
	if success {
		base["hook"] = M{"kind": "none", "signer": "", "msgs": []any{}}
	} else {
		base["hook"] = M{"kind": "undecodable", "signer": "", "msgs": []any{}}
	}
	without, _, ok2 := gasOf(base)
	if !ok2 {
		return true
	}
	p, err := ch.F.Child.GetParams(ch.Ctx)
	if err != nil {
		panic(err)
	}
	const slack = 0 // the two runs differ only in what the hook meter charged: nothing else in the handler depends on the hook
	// the bound is tight: with an allowance one unit below what the hook consumed when it succeeded, the same hook must run
	// out of gas and the deposit must be refunded (its messages do not run on any other meter)
	if success && with > without && p.HookMaxGas >= with-without {
		fork := ch.Fork()
		p2 := p
		p2.HookMaxGas = with - without - 1
		msg := fork.toMsg(e)
		if err := fork.F.Child.Params.Set(fork.Ctx, p2); err == nil {
			fork.Ctx = fork.Ctx.WithGasMeter(storetypes.NewGasMeter(500_000_000))
			r := Deliver(fork.F, fork.Ctx, msg)
			if r.OK {
				if succ, _ := attr(r.Events, opchildtypes.EventTypeFinalizeTokenDeposit, opchildtypes.AttributeKeySuccess); succ == "true" {
					return false
				}
			}
		}
	}
	if os.Getenv("VERIF_DEBUG_GAS") != "" {
		b2 := M{}
		for k, v := range e {
			b2[k] = v
		}
		b2["hook"] = M{"kind": "none", "signer": "", "msgs": []any{}}
		g2, _, _ := gasOf(b2)
		b2["hook"] = M{"kind": "undecodable", "signer": "", "msgs": []any{}, "pad": int64(len(ch.hookBytes(hook)))}
		g3, _, _ := gasOf(b2)
		fmt.Fprintf(os.Stderr, "GAS with=%d without=%d max=%d success=%v hook=%v nohook=%d badsig=%d\n", with, without, p.HookMaxGas, success, hook["kind"], g2, g3)
	}
	return with <= without+p.HookMaxGas+slack
}

// Project reads the abstract L2Child state record out of the real stores.
func (ch *Chain) Project() M {
	c := ch.C
	f := ch.F
	ctx := ch.Ctx
	st := M{"cap": c.Cap()}
	devs := M{}
	for _, d := range ch.Cfg.Devs {
		devs[d] = true
	}
	st["devs"] = devs
	s1, err := f.Querier.NextL1Sequence(ctx, &opchildtypes.QueryNextL1SequenceRequest{})
	if err != nil {
		panic(err)
	}
	s2, err := f.Querier.NextL2Sequence(ctx, &opchildtypes.QueryNextL2SequenceRequest{})
	if err != nil {
		panic(err)
	}
	st["seqL1"], st["seqL2"] = int64(s1.NextL1Sequence), int64(s2.NextL2Sequence)
	pairs := M{}
	if err := f.Child.DenomPairs.Walk(ctx, nil, func(d, base string) (bool, error) {
		pairs[c.DenomName(d)] = c.DenomName(base)
		// cross-check with the BaseDenom query
		q, err := f.Querier.BaseDenom(ctx, &opchildtypes.QueryBaseDenomRequest{Denom: d})
		if err != nil || q.BaseDenom != base {
			pairs["?query:"+c.DenomName(d)] = true
		}
		return false, nil
	}); err != nil {
		panic(err)
	}
	st["pairs"] = pairs
	meta := M{}
	f.Bank.IterateAllDenomMetaData(ctx, func(md banktypes.Metadata) bool {
		meta[c.DenomName(md.Base)] = c.DenomName(md.Display)
		return false
	})
	st["meta"] = meta
	bal, stray, acctSeq := M{}, M{}, M{}
	tracked := map[string]bool{}
	for _, a := range ch.Cfg.Accts {
		row := M{}
		addr := c.AddrBytes(a)
		tracked[addr.String()] = true
		for _, d := range ch.Cfg.Denoms {
			row[d] = c.UnitsAny(f.Bank.GetBalance(ctx, addr, c.Denom(d)).Amount.BigInt())
		}
		bal[a] = row
		acctSeq[a] = int64(0)
		if acc := f.Account.GetAccount(ctx, addr); acc != nil {
			acctSeq[a] = int64(acc.GetSequence())
		}
	}
	denomTracked := map[string]bool{}
	supply := M{}
	for _, d := range ch.Cfg.Denoms {
		denomTracked[c.Denom(d)] = true
		supply[d] = c.UnitsAny(f.Bank.GetSupply(ctx, c.Denom(d)).Amount.BigInt())
	}
	f.Bank.IterateAllBalances(ctx, func(addr sdk.AccAddress, cn sdk.Coin) bool {
		if cn.Amount.IsZero() || (tracked[addr.String()] && denomTracked[cn.Denom]) {
			return false
		}
		stray[c.AddrName(addr.String())+"/"+c.DenomName(cn.Denom)] = cn.Amount.String()
		return false
	})
	f.Bank.IterateTotalSupply(ctx, func(cn sdk.Coin) bool {
		if !denomTracked[cn.Denom] && !cn.Amount.IsZero() {
			stray["supply/"+c.DenomName(cn.Denom)] = cn.Amount.String()
		}
		return false
	})
	st["bal"], st["stray"], st["acctSeq"], st["supply"] = bal, stray, acctSeq, supply
	p, err := f.Querier.Params(ctx, &opchildtypes.QueryParamsRequest{})
	if err != nil {
		panic(err)
	}
	st["params"] = ch.paramsName(p.Params)
	vals, err := f.Child.GetAllValidators(ctx)
	if err != nil {
		panic(err)
	}
	st["nvals"] = int64(len(vals))
	bi := M{"set": false, "id": int64(0), "addr": "", "chain": "", "client": "", "oracle": false}
	if q, err := f.Querier.BridgeInfo(ctx, &opchildtypes.QueryBridgeInfoRequest{}); err == nil {
		addr := q.BridgeInfo.BridgeAddr
		if len(addr) > len("bridge-addr-") && addr[:len("bridge-addr-")] == "bridge-addr-" {
			addr = addr[len("bridge-addr-"):]
		}
		bi = M{"set": true, "id": int64(q.BridgeInfo.BridgeId), "addr": addr, "chain": q.BridgeInfo.L1ChainId, "client": q.BridgeInfo.L1ClientId, "oracle": q.BridgeInfo.BridgeConfig.OracleEnabled}
	}
	st["bridgeInfo"] = bi
	return st
}

func (ch *Chain) Digest() string {
	var names []string
	for n := range ch.F.Keys {
		names = append(names, n)
	}
	sort.Strings(names)
	var sb bytes.Buffer
	for _, n := range names {
		it := ch.Ctx.KVStore(ch.F.Keys[n]).Iterator(nil, nil)
		for ; it.Valid(); it.Next() {
			fmt.Fprintf(&sb, "%s/%x=%x\n", n, it.Key(), it.Value())
		}
		it.Close()
	}
	return sb.String()
}
