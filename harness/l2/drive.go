package l2

import (
	"encoding/json"
	"io"
	"math/big"
	"math/rand"

	"verifharness/absx"
	"verifharness/l1"
)

// Drive runs seeded random histories on the real L2 chain (engine E3; validated by spec/Trace_L2.tla):
// long relay schedules with duplicates / gaps / racing executors, deposits with every recipient class,
// hook payload kinds and injected bank faults, withdrawals of bridged / native / unknown denoms, transfers,
// parameter changes (executors, hook gas), bridge-info updates, batched execution, genesis round trips.
type driver struct {
	rng *rand.Rand
	ch  *Chain
}

func pick[T any](r *rand.Rand, xs []T) T { return xs[r.Intn(len(xs))] }

var dUsers = []string{"u1", "u2", "u3", "u4"}

func DriveCfg() RunCfg {
	return RunCfg{
		Accts:   []string{"e1", "e2", "e3", "adm", "adm2", "u1", "u2", "u3", "u4", "x", "opchild", "feecollector"},
		Denoms:  []string{"l2/1/d1", "l2/1/d2", "l2/1/d3", "n1"},
		Funded:  M{"u1": M{"n1": int64(50)}, "u2": M{"n1": int64(50)}, "feecollector": M{"n1": int64(20)}},
		Params:  M{"admin": "adm", "execs": []any{"e1", "e2"}, "maxVals": int64(3), "histEntries": int64(1), "hookGas": "ample", "fw": []any{}},
		PreMeta: []string{"l2/1/d3"},
	}
}

func (d *driver) hook(to string) M {
	r := d.rng
	if r.Intn(8) == 0 { // an executor delivers further deposits from inside the hook
		next := absx.Int(d.ch.Project()["seqL1"])
		n := 1 + r.Intn(2)
		var msgs []any
		for i := 0; i < n; i++ {
			denom := pick(r, []string{"l2/1/d1", "l2/1/d2"})
			msgs = append(msgs, M{"kind": "deposit", "seq": next + int64(i) + int64(pick(r, []int{0, 1, 1, 1, 1, 2})), "from": pick(r, dUsers), "to": pick(r, []string{"u1", "u2", "u3", "opchild"}), "denom": denom,
				"amt": int64(r.Intn(9)), "base": map[string]string{"l2/1/d1": "d1", "l2/1/d2": "d2"}[denom], "height": int64(7)})
		}
		if r.Intn(4) == 0 {
			msgs = append(msgs, M{"kind": "send", "to": "panic", "denom": "l2/1/d1", "amt": int64(1)})
		}
		return M{"kind": "msgs", "signer": pick(r, []string{"e1", "e2", "e2", "e2", "u1"}), "msgs": msgs}
	}
	switch r.Intn(10) {
	case 0:
		return M{"kind": "undecodable", "signer": "", "msgs": []any{}}
	case 1:
		return M{"kind": "badSig", "signer": pick(r, dUsers), "msgs": []any{M{"kind": "send", "to": "u3", "denom": "l2/1/d1", "amt": int64(1)}}}
	case 2, 3, 4:
		signer := to
		if r.Intn(4) == 0 || len(signer) < 2 || signer[0] != 'u' {
			signer = pick(r, dUsers)
		}
		n := 1 + r.Intn(3)
		var msgs []any
		for i := 0; i < n; i++ {
			if r.Intn(3) == 0 {
				msgs = append(msgs, M{"kind": "withdraw", "to": pick(r, []string{"u1", "u2", "u3", l1.BadNotBech32}), "denom": pick(r, []string{"l2/1/d1", "l2/1/d1", "l2/1/d2", "n1"}), "amt": int64(r.Intn(5))})
				continue
			}
			msgs = append(msgs, M{"kind": "send", "to": pick(r, []string{"u1", "u2", "u3", "u4", "u4", "panic", "opchild"}), "denom": pick(r, []string{"l2/1/d1", "l2/1/d1", "l2/1/d2", "n1"}), "amt": int64(r.Intn(8))})
		}
		return M{"kind": "msgs", "signer": signer, "msgs": msgs}
	}
	return M{"kind": "none", "signer": "", "msgs": []any{}}
}

func (d *driver) next() M {
	r := d.rng
	st := d.ch.Project()
	next := absx.Int(st["seqL1"])
	params := absx.Map(st["params"])
	execs := absx.List(params["execs"])
	exec := "e1"
	if len(execs) > 0 {
		exec = absx.Str(execs[r.Intn(len(execs))])
	}
	switch w := r.Intn(100); {
	case w < 45:
		seq := next
		switch r.Intn(10) {
		case 0, 1:
			seq = int64(r.Intn(int(next) + 1)) // stale (or 0)
		case 2:
			seq = next + 1 + int64(r.Intn(3)) // ahead
		}
		to := pick(r, []string{"u1", "u2", "u3", "u4", "u1", "u2", "opchild", "feecollector", l1.BadNotBech32, l1.BadSpace})
		denom := pick(r, []string{"l2/1/d1", "l2/1/d1", "l2/1/d2", "l2/1/d3"})
		base := map[string]string{"l2/1/d1": "d1", "l2/1/d2": "d2", "l2/1/d3": "d3"}[denom]
		if r.Intn(12) == 0 {
			base = pick(r, []string{"d1", "d2", "d3"})
		}
		e := M{"type": "FinalizeTokenDeposit", "signer": exec, "seq": seq, "from": pick(r, dUsers), "to": to, "denom": denom, "amt": int64(r.Intn(30)),
			"base": base, "height": int64(1 + r.Intn(100)), "hook": d.hook(to), "fault": "none"}
		switch r.Intn(20) {
		case 0:
			e["signer"] = pick(r, []string{"x", "adm", "e3"})
		case 1:
			e["fault"] = pick(r, []string{"mintErr", "mintPanic", "sendErr", "sendPanic"})
		case 2:
			e["from"] = l1.BadEmpty
		case 3:
			e["base"] = l1.BadDenom
		case 4:
			e["height"] = int64(0)
		}
		return e
	case w < 65:
		return M{"type": "InitiateTokenWithdrawal", "signer": pick(r, dUsers), "to": pick(r, []string{"u1", "u2", "u3", l1.BadNotBech32, l1.BadEmpty}),
			"denom": pick(r, []string{"l2/1/d1", "l2/1/d1", "l2/1/d2", "l2/1/d3", "n1"}), "amt": int64(r.Intn(12))}
	case w < 78:
		return M{"type": "BankSend", "signer": pick(r, dUsers), "to": pick(r, dUsers), "denom": pick(r, []string{"l2/1/d1", "l2/1/d2", "n1"}), "amt": int64(1 + r.Intn(6))}
	case w < 86:
		p := M{}
		for k, v := range params {
			p[k] = v
		}
		switch r.Intn(5) {
		case 4:
			p["fw"] = pick(r, [][]any{{}, {"u1"}, {"u1", "u2"}, {"u1", l1.BadNotBech32}})
		case 0:
			p["execs"] = pick(r, [][]any{{"e1", "e2"}, {"e2"}, {"e1", "e3"}, {"e3", "e2", "e1"}, {"e1", l1.BadNotBech32}, {"up:e1", "e2"}, {"up:e2"}})
		case 1:
			p["hookGas"] = pick(r, []string{"ample", "ample", "tiny", "zero"})
		case 2:
			p["admin"] = pick(r, []string{"adm", "adm2"})
		case 3:
			p["maxVals"] = int64(r.Intn(3))
		}
		return M{"type": "UpdateParams", "signer": pick(r, []string{"opchild", "opchild", "opchild", "adm", "x"}), "params": p}
	case w < 90:
		return M{"type": "SetBridgeInfo", "signer": pick(r, []string{exec, exec, "x"}), "info": M{"id": int64(pick(r, []int{1, 1, 1, 2, 0})), "addr": pick(r, []string{"A", "A", "A", "B", ""}),
			"chain": pick(r, []string{"L1", "L1", "L1x"}), "client": pick(r, []string{"", "c1", "c1", "c2"}), "oracle": r.Intn(2) == 0, "cfgOK": r.Intn(8) != 0}}
	case w < 93:
		return M{"type": "SpendFeePool", "signer": pick(r, []string{"opchild", "opchild", "adm"}), "to": pick(r, dUsers), "denom": "n1", "amt": int64(r.Intn(8))}
	case w < 97:
		inner := []any{M{"type": "SpendFeePool", "signer": "opchild", "to": pick(r, dUsers), "denom": "n1", "amt": int64(r.Intn(4))}}
		if r.Intn(3) == 0 {
			inner = append(inner, M{"type": "BankSend", "signer": pick(r, dUsers), "to": "u3", "denom": "n1", "amt": int64(1)})
		}
		if r.Intn(3) == 0 {
			inner = append(inner, M{"type": "SpendFeePool", "signer": "opchild", "to": "u4", "denom": "n1", "amt": int64(r.Intn(40))})
		}
		return M{"type": "ExecuteMessages", "signer": pick(r, []string{absx.Str(params["admin"]), absx.Str(params["admin"]), "x", "opchild"}), "msgs": inner}
	case w < 99:
		q := pick(r, []string{"NextL1Sequence", "NextL2Sequence", "BaseDenom", "BaseDenom", "BridgeInfo", "Params"})
		e := M{"type": "Query", "q": q, "denom": ""}
		if q == "BaseDenom" {
			e["denom"] = pick(r, []string{"l2/1/d1", "l2/1/d2", "l2/1/d3", "n1"})
		}
		return e
	default:
		return M{"type": "ExportImport"}
	}
}

// Drive writes `runs` histories of `length` events each.
func Drive(out io.Writer, seed int64, runs, length int) (map[string]int, error) {
	enc := json.NewEncoder(out)
	stats := map[string]int{}
	scales := []*big.Int{big.NewInt(1), big.NewInt(1_000_000), new(big.Int).Lsh(big.NewInt(1), 60)}
	for run := 0; run < runs; run++ {
		rng := rand.New(rand.NewSource(seed*1000003 + int64(run)))
		conc := l1.NewConc(seed*31+int64(run), scales[run%len(scales)])
		d := &driver{rng: rng, ch: NewChain(conc, DriveCfg())}
		if err := enc.Encode(M{"reset": true, "run": int64(run), "scale": conc.U.String(), "seed": conc.Seed, "state": d.ch.Project()}); err != nil {
			return nil, err
		}
		for i := 0; i < length; i++ {
			e := d.next()
			o := d.ch.Exec(e)
			stats[absx.Str(e["type"])]++
			if o.OK {
				stats["ok:"+absx.Str(e["type"])]++
			}
			resp := o.Resp
			if resp == nil {
				resp = M{"none": true}
			}
			if err := enc.Encode(M{"run": int64(run), "i": int64(i), "e": e, "ok": o.OK, "resp": resp, "err": o.Err, "state": d.ch.Project()}); err != nil {
				return nil, err
			}
		}
	}
	return stats, nil
}
