package l2

import (
	"bytes"
	"encoding/hex"
	"fmt"
	"math/big"
	"sort"

	cometabci "github.com/cometbft/cometbft/abci/types"
	cmtproto "github.com/cometbft/cometbft/proto/tendermint/types"

	cryptocodec "github.com/cosmos/cosmos-sdk/crypto/codec"
	"github.com/cosmos/cosmos-sdk/crypto/keys/ed25519"
	sdk "github.com/cosmos/cosmos-sdk/types"
	stakingtypes "github.com/cosmos/cosmos-sdk/x/staking/types"
	protoio "github.com/cosmos/gogoproto/io"

	connectcodec "github.com/skip-mev/connect/v2/abci/strategies/codec"
	"github.com/skip-mev/connect/v2/abci/strategies/currencypair"
	vetypes "github.com/skip-mev/connect/v2/abci/ve/types"
	connecttypes "github.com/skip-mev/connect/v2/pkg/types"
	oracletypes "github.com/skip-mev/connect/v2/x/oracle/types"

	opchildtypes "github.com/initia-labs/OPinit/x/opchild/types"
	ophosttypes "github.com/initia-labs/OPinit/x/ophost/types"

	"verifharness/absx"
)

// pair names of the abstract model and the real currency pairs they stand for
var pairName = map[string]string{"BTC": "BTC/USD", "ETH": "ETH/USD", "TS": "TIMESTAMP/NANOSECOND"}

type OracleCfg struct {
	Client, Chain string
	Enabled       bool
	Pairs         []string
	Vals          []string
}

// InitOracle prepares a chain for Oracle.tla runs: bridge info, currency pairs.
func (ch *Chain) InitOracle(cfg OracleCfg) {
	f := ch.F
	info := opchildtypes.BridgeInfo{BridgeId: 1, BridgeAddr: "bridge", L1ChainId: cfg.Chain, L1ClientId: cfg.Client,
		BridgeConfig: ophosttypes.BridgeConfig{Challenger: ch.C.Addr("c1"), Proposer: ch.C.Addr("p1"), BatchInfo: ophosttypes.BatchInfo{Submitter: "s", ChainType: ophosttypes.BatchInfo_CHAIN_TYPE_INITIA},
			SubmissionInterval: 1e9, FinalizationPeriod: 1e9, SubmissionStartHeight: 1, OracleEnabled: cfg.Enabled}}
	if err := f.Child.BridgeInfo.Set(ch.Ctx, info); err != nil {
		panic(err)
	}
	f.Oracle.InitGenesis(ch.Ctx, oracletypes.GenesisState{CurrencyPairGenesis: []oracletypes.CurrencyPairGenesis{}})
	pairs := append([]string{}, cfg.Pairs...)
	sort.Strings(pairs)
	for _, p := range pairs {
		cp, err := connecttypes.CurrencyPairFromString(pairName[p])
		if err != nil {
			panic(err)
		}
		if err := f.Oracle.CreateCurrencyPair(ch.Ctx, cp); err != nil {
			panic(err)
		}
	}
	ch.O = &cfg
}

func (ch *Chain) hostKey(v string) *ed25519.PrivKey {
	return ed25519.GenPrivKeyFromSecret(ch.C.PrivKey("hostval:" + v).Bytes())
}

func (ch *Chain) hostValName(consAddr []byte) string {
	for _, v := range ch.O.Vals {
		if bytes.Equal(ch.hostKey(v).PubKey().Address(), consAddr) {
			return v
		}
	}
	return "?" + hex.EncodeToString(consAddr)
}

func marshalDelimited(msg *cmtproto.CanonicalVoteExtension) []byte {
	var buf bytes.Buffer
	if err := protoio.NewDelimitedWriter(&buf).WriteMsg(msg); err != nil {
		panic(err)
	}
	return buf.Bytes()
}

const oracleRound = 2

func (ch *Chain) extensionBytes(x M) []byte {
	switch absx.Str(x["kind"]) {
	case "none":
		return nil
	case "garbage":
		return []byte{0x01, 0x02, 0x03, 0xff, 0x00, 0x7f}
	case "prices":
		strategy := currencypair.NewHashCurrencyPairStrategy(ch.F.Oracle)
		prices := map[uint64][]byte{}
		put := func(pair string, v int64) {
			if v <= 0 {
				return
			}
			cp, err := connecttypes.CurrencyPairFromString(pairName[pair])
			if err != nil {
				panic(err)
			}
			enc, err := strategy.GetEncodedPrice(ch.Ctx, cp, big.NewInt(v))
			if err != nil {
				panic(err)
			}
			id, err := currencypair.CurrencyPairToHashID(pairName[pair])
			if err != nil {
				panic(err)
			}
			prices[id] = enc
		}
		put("TS", absx.Int(x["ts"]))
		for cp, v := range absx.Map(x["p"]) {
			put(cp, absx.Int(v))
		}
		codec := connectcodec.NewCompressionVoteExtensionCodec(connectcodec.NewDefaultVoteExtensionCodec(), connectcodec.NewZLibCompressor())
		bz, err := codec.Encode(vetypes.OracleVoteExtension{Prices: prices})
		if err != nil {
			panic(err)
		}
		return bz
	}
	panic("unknown extension kind " + absx.Str(x["kind"]))
}

func (ch *Chain) execOracle(e M) (Outcome, bool) {
	f := ch.F
	switch absx.Str(e["type"]) {
	case "UpdateHostSet":
		set := &cmtproto.ValidatorSet{}
		names := []string{}
		for v := range absx.Map(e["set"]) {
			names = append(names, v)
		}
		sort.Strings(names)
		for _, v := range names {
			pk := ch.hostKey(v).PubKey()
			cmtPk, err := cryptocodec.ToCmtProtoPublicKey(pk)
			if err != nil {
				panic(err)
			}
			set.Validators = append(set.Validators, &cmtproto.Validator{Address: pk.Address(), PubKey: cmtPk, VotingPower: absx.Int(absx.Map(e["set"])[v])})
		}
		before := ch.ProjectOracle()
		cc, write := ch.Ctx.CacheContext()
		if err := f.Child.UpdateHostValidatorSet(cc, absx.Str(e["client"]), absx.Int(e["height"]), set); err != nil {
			return Outcome{OK: false, Err: err.Error()}, true
		}
		write()
		after := ch.ProjectOracle()
		return Outcome{OK: true, Resp: M{"applied": absx.Canon(before) != absx.Canon(after)}}, true
	case "SetClient":
		info, err := f.Child.BridgeInfo.Get(ch.Ctx)
		if err != nil {
			panic(err)
		}
		info.L1ClientId = absx.Str(e["client"])
		info.BridgeConfig.OracleEnabled = absx.Bool(e["oracle"])
		r := Deliver(f, ch.Ctx, &opchildtypes.MsgSetBridgeInfo{Sender: ch.C.Addr(absx.Str(e["signer"])), BridgeInfo: info})
		if !r.OK {
			return Outcome{OK: false, Err: r.ErrString()}, true
		}
		v, _ := attr(r.Events, opchildtypes.EventTypeSetBridgeInfo, opchildtypes.AttributeKeyL1ClientId)
		return Outcome{OK: true, Resp: M{"client": v}}, true
	case "UpdateOracle":
		height := absx.Int(e["height"])
		eci := cometabci.ExtendedCommitInfo{Round: oracleRound}
		for _, vv := range absx.List(e["votes"]) {
			v := absx.Map(vv)
			name := absx.Str(v["val"])
			key := ch.hostKey(name)
			ext := ch.extensionBytes(absx.Map(v["ext"]))
			cve := cmtproto.CanonicalVoteExtension{ChainId: ch.O.Chain, Height: height - 1, Round: oracleRound, Extension: ext}
			signKey := key
			var sig []byte
			switch absx.Str(v["sig"]) {
			case "ok":
			case "bad":
				sig = bytes.Repeat([]byte{0x5a}, 64)
			case "missing":
				sig = []byte{}
			case "wrongChain":
				cve.ChainId = ch.O.Chain + "-other"
			case "wrongHeight":
				cve.Height = height
			case "wrongRound":
				cve.Round = oracleRound + 1
			case "swapped":
				signKey = ch.hostKey(name + "-someone-else")
			default:
				panic("unknown signature kind " + absx.Str(v["sig"]))
			}
			if sig == nil {
				s, err := signKey.Sign(marshalDelimited(&cve))
				if err != nil {
					panic(err)
				}
				sig = s
			}
			flag := map[string]cmtproto.BlockIDFlag{"commit": cmtproto.BlockIDFlagCommit, "absent": cmtproto.BlockIDFlagAbsent, "nil": cmtproto.BlockIDFlagNil}[absx.Str(v["flag"])]
			eci.Votes = append(eci.Votes, cometabci.ExtendedVoteInfo{Validator: cometabci.Validator{Address: key.PubKey().Address(), Power: 1},
				VoteExtension: ext, ExtensionSignature: sig, BlockIdFlag: flag})
		}
		codec := connectcodec.NewCompressionExtendedCommitCodec(connectcodec.NewDefaultExtendedCommitCodec(), connectcodec.NewZStdCompressor())
		bz, err := codec.Encode(eci)
		if err != nil {
			panic(err)
		}
		r := Deliver(f, ch.Ctx, &opchildtypes.MsgUpdateOracle{Sender: ch.C.Addr(absx.Str(e["signer"])), Height: uint64(height), Data: bz})
		if !r.OK {
			return Outcome{OK: false, Err: r.ErrString()}, true
		}
		return Outcome{OK: true, Resp: M{"height": height}}, true
	}
	return Outcome{}, false
}

// ProjectOracle reads the abstract Oracle.tla state record.
func (ch *Chain) ProjectOracle() M {
	f := ch.F
	ctx := ch.Ctx
	st := M{"hostH": int64(0)}
	if h, err := f.Child.HostValidatorStore.GetLastHeight(ctx); err == nil {
		st["hostH"] = h
	}
	vals := M{}
	all, err := f.Child.HostValidatorStore.GetAllValidators(ctx)
	if err != nil {
		panic(err)
	}
	for _, v := range all {
		ca, err := v.GetConsAddr()
		if err != nil {
			panic(err)
		}
		vals[ch.hostValName(ca)] = v.Tokens.Quo(sdk.DefaultPowerReduction).Int64()
	}
	st["hostVals"] = vals
	info, err := f.Child.BridgeInfo.Get(ctx)
	if err != nil {
		panic(err)
	}
	st["client"], st["chain"], st["enabled"] = info.L1ClientId, info.L1ChainId, info.BridgeConfig.OracleEnabled
	p, err := f.Child.GetParams(ctx)
	if err != nil {
		panic(err)
	}
	execs := []any{}
	for _, e := range p.BridgeExecutors {
		execs = append(execs, ch.C.AddrName(e))
	}
	st["execs"] = execs
	price := M{}
	for _, pn := range ch.O.Pairs {
		cp, _ := connecttypes.CurrencyPairFromString(pairName[pn])
		qp, err := f.Oracle.GetPriceForCurrencyPair(ctx, cp)
		if err != nil {
			price[pn] = M{"p": int64(0), "ts": int64(0)}
			continue
		}
		price[pn] = M{"p": qp.Price.Int64(), "ts": qp.BlockTimestamp.UnixNano()}
	}
	st["price"] = price
	return st
}

var _ = stakingtypes.Bonded
var _ = fmt.Sprint
