package l2

import (
	"strings"
	"bytes"
	"encoding/hex"
	"fmt"
	"sort"
	"strconv"

	abci "github.com/cometbft/cometbft/abci/types"
	cmttypes "github.com/cometbft/cometbft/types"

	cryptocodec "github.com/cosmos/cosmos-sdk/crypto/codec"
	"github.com/cosmos/cosmos-sdk/crypto/keys/ed25519"
	cryptotypes "github.com/cosmos/cosmos-sdk/crypto/types"
	sdk "github.com/cosmos/cosmos-sdk/types"
	"github.com/cosmos/cosmos-sdk/types/query"
	cosmostypes "github.com/cosmos/cosmos-sdk/x/staking/types"

	opchild "github.com/initia-labs/OPinit/x/opchild"
	opchildkeeper "github.com/initia-labs/OPinit/x/opchild/keeper"
	opchildtypes "github.com/initia-labs/OPinit/x/opchild/types"

	"verifharness/absx"
)

// ValState is the part of a validator-set run that lives outside the KV store: the consensus engine's
// view (a real CometBFT ValidatorSet fed with every returned batch), the in-memory plans, block phase.
type ValState struct {
	Comet   *cmttypes.ValidatorSet
	CometOK bool
	Phase   string
	Halted  bool
	Batch   []any
	Plans   map[uint64]opchildtypes.ExecutorChangePlan
	PlanAbs map[string]M
	Ops     []string // operator names in rank order
	opAddr  map[string]sdk.ValAddress
	keyRev  map[string]string // cons address hex / pubkey hex -> key name
}

func (v *ValState) clone() *ValState {
	if v == nil {
		return nil
	}
	out := *v
	if v.Comet != nil {
		out.Comet = v.Comet.Copy()
	}
	out.Plans = map[uint64]opchildtypes.ExecutorChangePlan{}
	for k, p := range v.Plans {
		out.Plans[k] = p
	}
	out.PlanAbs = map[string]M{}
	for k, p := range v.PlanAbs {
		out.PlanAbs[k] = p
	}
	out.Batch = append([]any{}, v.Batch...)
	return &out
}

// InitVal prepares a chain for validator-set runs: pre-genesis phase, height 0, operator names whose
// order equals the byte order of their concrete addresses.
func (ch *Chain) InitVal(ops []string, keys []string) {
	v := &ValState{Comet: cmttypes.NewValidatorSet(nil), CometOK: true, Phase: "pre", Batch: []any{}, Plans: map[uint64]opchildtypes.ExecutorChangePlan{},
		PlanAbs: map[string]M{}, Ops: ops, opAddr: map[string]sdk.ValAddress{}, keyRev: map[string]string{}}
	var addrs [][]byte
	for i := range ops {
		addrs = append(addrs, ch.C.AddrBytes(fmt.Sprintf("valoper-%d", i)))
	}
	sort.Slice(addrs, func(i, j int) bool { return bytes.Compare(addrs[i], addrs[j]) < 0 })
	for i, o := range ops {
		v.opAddr[o] = sdk.ValAddress(addrs[i])
	}
	ch.V = v
	for _, k := range keys {
		pk := ch.consKey(k)
		v.keyRev[hex.EncodeToString(pk.Address())] = k
	}
	hdr := ch.Ctx.BlockHeader()
	hdr.Height = 0
	ch.Ctx = ch.Ctx.WithBlockHeader(hdr)
}

func (ch *Chain) valoper(op string) string {
	if op == "bad:notbech32" || op == "bad:empty" {
		return ch.C.Addr(op)
	}
	if ch.V != nil {
		if a, ok := ch.V.opAddr[op]; ok {
			return a.String()
		}
	}
	return ch.C.ValAddr(op).String()
}

func (ch *Chain) opName(valoper string) string {
	if ch.V != nil {
		for n, a := range ch.V.opAddr {
			if a.String() == valoper {
				return n
			}
		}
	}
	return "?" + valoper
}

func (ch *Chain) consKey(key string) cryptotypes.PubKey {
	if key == "nil" {
		return nil
	}
	seed := ch.C.PrivKey("cons:" + key).Bytes()
	return ed25519.GenPrivKeyFromSecret(seed).PubKey()
}

func (ch *Chain) keyName(consAddr []byte) string {
	if ch.V != nil {
		if n, ok := ch.V.keyRev[hex.EncodeToString(consAddr)]; ok {
			return n
		}
	}
	return "?" + hex.EncodeToString(consAddr)
}

// rawEvents renders the events a block hook emitted, in order, attribute by attribute.
func rawEvents(ctx sdk.Context) string {
	raw := "|events="
	for _, ev := range ctx.EventManager().ABCIEvents() {
		raw += ev.Type + "{"
		for _, a := range ev.Attributes {
			raw += a.Key + "=" + a.Value + ";"
		}
		raw += "}"
	}
	return raw
}

// feed hands a returned update batch to the real CometBFT validator set.
func (ch *Chain) feed(updates []abci.ValidatorUpdate) {
	v := ch.V
	v.Batch = []any{}
	raw := "updates="
	for _, u := range updates {
		bz, err := u.Marshal()
		if err != nil {
			panic(err)
		}
		raw += fmt.Sprintf("%x;", bz)
	}
	ch.F.LastRaw = raw
	for _, u := range updates {
		pk, err := cryptocodec.FromCmtProtoPublicKey(u.PubKey)
		name := "?"
		if err == nil {
			name = ch.keyName(pk.Address())
		}
		v.Batch = append(v.Batch, M{"key": name, "power": u.Power})
	}
	changes, err := cmttypes.PB2TM.ValidatorUpdates(updates)
	if err != nil {
		v.CometOK = false
		return
	}
	if err := v.Comet.UpdateWithChangeSet(changes); err != nil {
		v.CometOK = false
	}
}

func (ch *Chain) execVal(e M) (Outcome, bool) {
	f := ch.F
	v := ch.V
	ty := absx.Str(e["type"])
	switch ty {
	case "RegisterPlan", "BeginBlock", "EndBlock", "InitGenesis":
	case "ExecProbe":
		// an executor-only message that cannot succeed for another reason (a deposit far ahead of the next sequence): the
		// answer tells whether the signer passed the executor check
		c := ch.C
		r := Deliver(f, ch.Ctx, &opchildtypes.MsgFinalizeTokenDeposit{Sender: c.Addr(absx.Str(e["signer"])), From: c.Addr("u2"), To: c.Addr("u1"),
			Amount: coin(c, "l2/1/d1", 1), Sequence: 1 << 40, Height: 5, BaseDenom: c.Denom("d1")})
		if r.OK {
			return Outcome{OK: true, Resp: M{"ok": "?accepted"}}, true
		}
		if strings.Contains(r.ErrString(), "invalid sequence") {
			return Outcome{OK: true, Resp: M{"ok": true}}, true
		}
		return Outcome{OK: false, Err: r.ErrString()}, true
	case "Query":
		if v == nil {
			return Outcome{}, false
		}
		return ch.queryVal(e), true
	default:
		return Outcome{}, false
	}
	if v == nil {
		panic("validator-set event on a chain without InitVal")
	}
	f.Child.ExecutorChangePlans = v.Plans
	switch ty {
	case "RegisterPlan":
		pkJSON := `{"@type":"/cosmos.crypto.ed25519.PubKey","key":"not-base64!"}`
		if k := absx.Str(e["key"]); k != "nil" {
			bz, err := f.Cdc.MarshalInterfaceJSON(ch.consKey(k))
			if err != nil {
				panic(err)
			}
			pkJSON = string(bz)
		}
		var execs []string
		for _, x := range absx.List(e["execs"]) {
			execs = append(execs, ch.C.Addr(absx.Str(x)))
		}
		err := f.Child.RegisterExecutorChangePlan(uint64(absx.Int(e["id"])), uint64(absx.Int(e["height"])), ch.valoper(absx.Str(e["op"])),
			"moniker-"+absx.Str(e["op"]), pkJSON, "info", execs)
		if err != nil {
			return Outcome{OK: false, Err: err.Error()}, true
		}
		v.PlanAbs[strconv.FormatInt(absx.Int(e["height"]), 10)] = M{"id": e["id"], "op": e["op"], "key": e["key"], "execs": e["execs"]}
		return Outcome{OK: true, Resp: M{"height": absx.Int(e["height"])}}, true
	case "BeginBlock":
		if v.Phase != "out" || v.Halted {
			return Outcome{OK: false, Err: "phase"}, true
		}
		hdr := ch.Ctx.BlockHeader()
		hdr.Height++
		ch.Ctx = ch.Ctx.WithBlockHeader(hdr)
		v.Phase = "in"
		cc, write := ch.Ctx.CacheContext()
		cc = cc.WithEventManager(sdk.NewEventManager())
		defer func() { ch.F.LastRaw += rawEvents(cc) }() // block events belong to what replicas must agree on
		func() {
			defer func() {
				if r := recover(); r != nil {
					v.Halted = true
				}
			}()
			if err := opchild.BeginBlocker(cc, f.Child); err != nil {
				v.Halted = true
				return
			}
			write()
		}()
		return Outcome{OK: true, Resp: M{"ok": true}}, true
	case "EndBlock":
		if v.Phase != "in" || v.Halted {
			return Outcome{OK: false, Err: "phase"}, true
		}
		h := strconv.FormatInt(ch.Ctx.BlockHeight(), 10)
		resp := M{"planned": false, "devs": []any{}}
		if p, ok := v.PlanAbs[h]; ok {
			resp["planned"] = true
			resp["devs"] = ch.planDevs(p)
		}
		v.Phase = "out"
		cc, write := ch.Ctx.CacheContext()
		cc = cc.WithEventManager(sdk.NewEventManager())
		defer func() { ch.F.LastRaw += rawEvents(cc) }()
		func() {
			defer func() {
				if r := recover(); r != nil {
					v.Halted = true
				}
			}()
			updates, err := opchild.EndBlocker(cc, f.Child)
			if err != nil {
				v.Halted = true
				return
			}
			write()
			ch.feed(updates)
		}()
		resp["finding"] = []any{}
		if p, ok := v.PlanAbs[h]; ok && !ch.planOutcome(p) {
			if devs := resp["devs"].([]any); len(devs) > 0 {
				resp["finding"] = devs
			} else {
				resp["finding"] = []any{"PlanNotApplied"}
			}
		}
		return Outcome{OK: true, Resp: resp}, true
	case "InitGenesis":
		if v.Phase != "pre" {
			return Outcome{OK: false, Err: "phase"}, true
		}
		gs := opchildtypes.DefaultGenesisState()
		gs.Params = ch.params(absx.Map(e["params"]))
		for _, x := range absx.List(e["vals"]) {
			xm := absx.Map(x)
			addr, err := sdk.ValAddressFromBech32(ch.valoper(absx.Str(xm["op"])))
			if err != nil {
				panic(err)
			}
			val, err := opchildtypes.NewValidator(addr, ch.consKey(absx.Str(xm["key"])), "moniker-"+absx.Str(xm["op"]))
			if err != nil {
				panic(err)
			}
			val.ConsPower = absx.Int(xm["power"])
			gs.Validators = append(gs.Validators, val)
		}
		bz, err := f.Cdc.MarshalJSON(gs)
		if err != nil {
			panic(err)
		}
		var gs2 opchildtypes.GenesisState
		if err := f.Cdc.UnmarshalJSON(bz, &gs2); err != nil {
			panic(err)
		}
		if err := opchildtypes.ValidateGenesis(&gs2, f.AC); err != nil {
			return Outcome{OK: false, Err: "ValidateGenesis: " + err.Error()}, true
		}
		var out Outcome
		func() {
			defer func() {
				if r := recover(); r != nil {
					out = Outcome{OK: false, Err: fmt.Sprintf("panic: %v", r)}
				}
			}()
			cc, write := ch.Ctx.CacheContext()
			updates := f.Child.InitGenesis(cc, &gs2)
			write()
			v.Phase = "out"
			ch.feed(updates)
			out = Outcome{OK: true, Resp: M{"ok": true}}
		}()
		return out, true
	}
	return Outcome{}, false
}

func (ch *Chain) planDevs(p M) []any {
	f := ch.F
	out := []any{}
	addr, err := sdk.ValAddressFromBech32(ch.valoper(absx.Str(p["op"])))
	if err == nil {
		if _, found := f.Child.GetValidator(ch.Ctx, addr); found {
			out = append(out, "PlanReusesOperator")
		}
	}
	if k := absx.Str(p["key"]); k != "nil" {
		if val, found := f.Child.GetValidatorByConsAddr(ch.Ctx, sdk.ConsAddress(ch.consKey(k).Address())); found && val.OperatorAddress != ch.valoper(absx.Str(p["op"])) {
			out = append(out, "PlanReusesKey")
		}
	}
	return out
}

// planOutcome evaluates, on the real chain after EndBlock, what C14 promises for plan p.
func (ch *Chain) planOutcome(p M) bool {
	st := ch.ProjectVal()
	op, key := absx.Str(p["op"]), absx.Str(p["key"])
	want := M{"vals": M{op: M{"key": key, "power": int64(1)}}, "cons": M{key: op}, "lastPow": M{op: int64(1)}, "comet": M{key: int64(1)}}
	for f, w := range want {
		if absx.Canon(st[f]) != absx.Canon(w) {
			return false
		}
	}
	return !absx.Bool(st["halted"]) && absx.Bool(st["cometOK"]) && absx.Canon(absx.Map(st["params"])["execs"]) == absx.Canon(p["execs"])
}

// queryVal answers a Query event of ValSet.tla through the real gRPC queriers and the staking-interface readers.
func (ch *Chain) queryVal(e M) Outcome {
	f := ch.F
	ctx := ch.Ctx
	fail := func(err error) Outcome { return Outcome{OK: false, Err: err.Error()} }
	valRec := func(val opchildtypes.Validator) M {
		kn := "?"
		if ca, err := val.GetConsAddr(); err == nil {
			kn = ch.keyName(ca)
		}
		return M{"op": ch.opName(val.OperatorAddress), "key": kn, "power": val.ConsPower}
	}
	switch absx.Str(e["q"]) {
	case "Validators":
		r, err := f.Querier.Validators(ctx, &opchildtypes.QueryValidatorsRequest{Pagination: &query.PageRequest{Offset: uint64(absx.Int(e["offset"])), Limit: uint64(absx.Int(e["limit"])),
			Reverse: absx.Bool(e["reverse"]), CountTotal: true}})
		if err != nil {
			return fail(err)
		}
		ops := []any{}
		for _, val := range r.Validators {
			ops = append(ops, ch.opName(val.OperatorAddress))
		}
		return Outcome{OK: true, Resp: M{"ops": ops, "total": int64(r.Pagination.Total)}}
	case "Validator":
		r, err := f.Querier.Validator(ctx, &opchildtypes.QueryValidatorRequest{ValidatorAddr: ch.valoper(absx.Str(e["op"]))})
		if err != nil {
			return fail(err)
		}
		// the staking-interface reader must agree with the gRPC answer
		if vi := f.Child.Validator(ctx, ch.V.opAddr[absx.Str(e["op"])]); vi == nil || vi.GetOperator() != r.Validator.OperatorAddress {
			return Outcome{OK: true, Resp: M{"op": "?interface-disagrees"}}
		}
		return Outcome{OK: true, Resp: valRec(r.Validator)}
	case "ValidatorByConsAddr":
		vi := f.Child.ValidatorByConsAddr(ctx, sdk.ConsAddress(ch.consKey(absx.Str(e["key"])).Address()))
		if vi == nil {
			return Outcome{OK: false, Err: "validator not found"}
		}
		val, ok := vi.(opchildtypes.Validator)
		if !ok {
			return Outcome{OK: true, Resp: M{"op": "?type"}}
		}
		return Outcome{OK: true, Resp: valRec(val)}
	case "LastValidators":
		vals := []any{}
		err := f.Child.IterateLastValidators(ctx, func(vi opchildtypes.ValidatorI, power int64) (bool, error) {
			vals = append(vals, M{"op": ch.opName(vi.GetOperator()), "power": power})
			return false, nil
		})
		if err != nil {
			return Outcome{OK: false, Err: "validator not found: " + err.Error()}
		}
		return Outcome{OK: true, Resp: M{"vals": vals}}
	case "Params":
		r, err := f.Querier.Params(ctx, &opchildtypes.QueryParamsRequest{})
		if err != nil {
			return fail(err)
		}
		return Outcome{OK: true, Resp: ch.paramsName(r.Params)}
	case "StakingParams":
		r, err := opchildkeeper.CompatibilityQuerier{Keeper: f.Child}.Params(ctx, &cosmostypes.QueryParamsRequest{})
		if err != nil {
			return fail(err)
		}
		mv, err1 := f.Child.MaxValidators(ctx)
		he, err2 := f.Child.HistoricalEntries(ctx)
		if err1 != nil || err2 != nil || mv != r.Params.MaxValidators || he != r.Params.HistoricalEntries {
			return Outcome{OK: true, Resp: M{"maxVals": "?interface-disagrees"}}
		}
		return Outcome{OK: true, Resp: M{"maxVals": int64(r.Params.MaxValidators), "histEntries": int64(r.Params.HistoricalEntries)}}
	}
	panic("unknown query " + absx.Str(e["q"]))
}

// ProjectVal reads the abstract ValSet state record.
func (ch *Chain) ProjectVal() M {
	f := ch.F
	ctx := ch.Ctx
	v := ch.V
	st := M{"height": ctx.BlockHeight(), "phase": v.Phase, "halted": v.Halted, "cometOK": v.CometOK, "batch": v.Batch}
	rank := M{}
	for i, o := range v.Ops {
		rank[o] = int64(i + 1)
	}
	st["rank"] = rank
	p, err := f.Child.GetParams(ctx)
	if err != nil {
		panic(err)
	}
	st["params"] = ch.paramsName(p)
	vals, cons, lastPow, comet, hist := M{}, M{}, M{}, M{}, M{}
	all, err := f.Child.GetAllValidators(ctx)
	if err != nil {
		panic(err)
	}
	for _, val := range all {
		ca, err := val.GetConsAddr()
		kn := "?"
		if err == nil {
			kn = ch.keyName(ca)
		}
		vals[ch.opName(val.OperatorAddress)] = M{"key": kn, "power": val.ConsPower}
	}
	if q, err := f.Querier.Validators(ctx, &opchildtypes.QueryValidatorsRequest{Pagination: &query.PageRequest{Limit: 1000}}); err != nil || len(q.Validators) != len(all) {
		vals["?query"] = true
	}
	if err := f.Child.ValidatorsByConsAddr.Walk(ctx, nil, func(ca []byte, op []byte) (bool, error) {
		cons[ch.keyName(ca)] = ch.opName(sdk.ValAddress(op).String())
		return false, nil
	}); err != nil {
		panic(err)
	}
	if err := f.Child.LastValidatorPowers.Walk(ctx, nil, func(op []byte, power int64) (bool, error) {
		lastPow[ch.opName(sdk.ValAddress(op).String())] = power
		return false, nil
	}); err != nil {
		panic(err)
	}
	for _, cv := range v.Comet.Validators {
		comet[ch.keyName(cv.Address)] = cv.VotingPower
	}
	if err := f.Child.HistoricalInfos.Walk(ctx, nil, func(h int64, hi cosmostypes.HistoricalInfo) (bool, error) {
		rec := M{}
		for _, hv := range hi.Valset {
			var pk cryptotypes.PubKey
			kn := "?"
			if err := f.Cdc.UnpackAny(hv.ConsensusPubkey, &pk); err == nil {
				kn = ch.keyName(pk.Address())
			}
			rec[kn] = hv.Tokens.Quo(sdk.DefaultPowerReduction).Int64()
		}
		hist[strconv.FormatInt(h, 10)] = rec
		return false, nil
	}); err != nil {
		panic(err)
	}
	plans := M{}
	for h, pa := range v.PlanAbs {
		if _, ok := v.Plans[uint64(absx.Int(absx.Norm(mustAtoi(h))))]; ok {
			plans[h] = pa
		}
	}
	for h := range v.Plans {
		if _, ok := v.PlanAbs[strconv.FormatUint(h, 10)]; !ok {
			plans["?"+strconv.FormatUint(h, 10)] = true
		}
	}
	st["vals"], st["cons"], st["lastPow"], st["comet"], st["hist"], st["plans"] = vals, cons, lastPow, comet, hist, plans
	return st
}

func mustAtoi(s string) int64 {
	v, err := strconv.ParseInt(s, 10, 64)
	if err != nil {
		panic(err)
	}
	return v
}

// ExportImport: see l1.ExportImport; the L2 variant also feeds InitGenesis' validator updates to a
// fresh consensus-engine validator set.
func (ch *Chain) ExportImport() (same bool, err error) {
	defer func() {
		if r := recover(); r != nil {
			err = fmt.Errorf("panic during genesis round trip: %v", r)
		}
	}()
	f := ch.F
	if ch.V != nil && (ch.V.Phase == "pre" || ch.V.Halted) {
		return false, fmt.Errorf("phase")
	}
	gs := f.Child.ExportGenesis(ch.Ctx)
	bz, err := f.Cdc.MarshalJSON(gs)
	if err != nil {
		return false, err
	}
	var gs2 opchildtypes.GenesisState
	if err := f.Cdc.UnmarshalJSON(bz, &gs2); err != nil {
		return false, err
	}
	if err := opchildtypes.ValidateGenesis(&gs2, f.AC); err != nil {
		return false, fmt.Errorf("ValidateGenesis rejects exported genesis: %w", err)
	}
	f2, ctx2 := newFixture(false)
	*f2.PanicTo = *f.PanicTo
	ctx2 = ctx2.WithBlockHeader(ch.Ctx.BlockHeader())
	// InitChain runs the modules' InitGenesis on a context whose block height is 0 (initial height 1); blocks then continue
	initCtx := ctx2.WithBlockHeight(0)
	f2.Account.InitGenesis(initCtx, *f.Account.ExportGenesis(ch.Ctx))
	f2.Bank.InitGenesis(initCtx, f.Bank.ExportGenesis(ch.Ctx))
	updates := f2.Child.InitGenesis(initCtx, &gs2)
	bz3, err := f2.Cdc.MarshalJSON(f2.Child.ExportGenesis(ctx2))
	if err != nil {
		return false, err
	}
	ch.F, ch.Ctx = f2, ctx2
	if ch.V != nil {
		ch.V.Comet = cmttypes.NewValidatorSet(nil)
		ch.V.CometOK = true
		ch.feed(updates)
	}
	return string(bz) == string(bz3), nil
}
