// Package l2 binds the TLA+ modules L2Child / ValSet / Oracle to the real x/opchild keeper.
package l2

import (
	"context"
	"fmt"
	"sort"

	abci "github.com/cometbft/cometbft/abci/types"
	tmproto "github.com/cometbft/cometbft/proto/tendermint/types"

	"cosmossdk.io/core/address"
	"cosmossdk.io/log"
	"cosmossdk.io/store"
	"cosmossdk.io/store/metrics"
	storetypes "cosmossdk.io/store/types"
	"cosmossdk.io/x/tx/signing"

	dbm "github.com/cosmos/cosmos-db"
	"github.com/cosmos/cosmos-sdk/baseapp"
	"github.com/cosmos/cosmos-sdk/client"
	"github.com/cosmos/cosmos-sdk/codec"
	codecaddress "github.com/cosmos/cosmos-sdk/codec/address"
	codectypes "github.com/cosmos/cosmos-sdk/codec/types"
	"github.com/cosmos/cosmos-sdk/runtime"
	"github.com/cosmos/cosmos-sdk/std"
	sdk "github.com/cosmos/cosmos-sdk/types"
	"github.com/cosmos/cosmos-sdk/types/module"
	"github.com/cosmos/cosmos-sdk/x/auth"
	authante "github.com/cosmos/cosmos-sdk/x/auth/ante"
	authcodec "github.com/cosmos/cosmos-sdk/x/auth/codec"
	authkeeper "github.com/cosmos/cosmos-sdk/x/auth/keeper"
	authtx "github.com/cosmos/cosmos-sdk/x/auth/tx"
	authtypes "github.com/cosmos/cosmos-sdk/x/auth/types"
	"github.com/cosmos/cosmos-sdk/x/authz"
	"github.com/cosmos/cosmos-sdk/x/bank"
	bankkeeper "github.com/cosmos/cosmos-sdk/x/bank/keeper"
	banktypes "github.com/cosmos/cosmos-sdk/x/bank/types"
	"github.com/cosmos/gogoproto/proto"

	opchild "github.com/initia-labs/OPinit/x/opchild"
	opchildkeeper "github.com/initia-labs/OPinit/x/opchild/keeper"
	opchildtypes "github.com/initia-labs/OPinit/x/opchild/types"
	oraclekeeper "github.com/skip-mev/connect/v2/x/oracle/keeper"
	oracletypes "github.com/skip-mev/connect/v2/x/oracle/types"

	"verifharness/l1"
)

var moduleBasics = module.NewBasicManager(auth.AppModuleBasic{}, bank.AppModuleBasic{}, opchild.AppModuleBasic{})

const ChainID = "l2-verif"

// Fault describes one injected failure of a bank-keeper call made by the opchild handlers.
type Fault struct {
	Method string // MintCoins | SendCoinsFromModuleToAccount | SendCoinsFromAccountToModule | BurnCoins
	Panic  bool
	Armed  bool
	Hits   int
}

// faultBank wraps the real bank keeper behind opchild's BankKeeper interface.
type faultBank struct {
	bankkeeper.BaseKeeper
	F *Fault
}

func (b *faultBank) trip(method string) error {
	if b.F != nil && b.F.Armed && b.F.Method == method {
		b.F.Hits++
		if b.F.Panic {
			panic("injected panic in " + method)
		}
		return fmt.Errorf("injected failure in %s", method)
	}
	return nil
}
func (b *faultBank) MintCoins(ctx context.Context, moduleName string, amounts sdk.Coins) error {
	if err := b.trip("MintCoins"); err != nil {
		return err
	}
	return b.BaseKeeper.MintCoins(ctx, moduleName, amounts)
}
func (b *faultBank) SendCoinsFromModuleToAccount(ctx context.Context, senderModule string, recipientAddr sdk.AccAddress, amt sdk.Coins) error {
	if err := b.trip("SendCoinsFromModuleToAccount"); err != nil {
		return err
	}
	return b.BaseKeeper.SendCoinsFromModuleToAccount(ctx, senderModule, recipientAddr, amt)
}
func (b *faultBank) SendCoinsFromAccountToModule(ctx context.Context, senderAddr sdk.AccAddress, recipientModule string, amt sdk.Coins) error {
	if err := b.trip("SendCoinsFromAccountToModule"); err != nil {
		return err
	}
	return b.BaseKeeper.SendCoinsFromAccountToModule(ctx, senderAddr, recipientModule, amt)
}
func (b *faultBank) BurnCoins(ctx context.Context, moduleName string, amounts sdk.Coins) error {
	if err := b.trip("BurnCoins"); err != nil {
		return err
	}
	return b.BaseKeeper.BurnCoins(ctx, moduleName, amounts)
}

// panicBankMsgServer makes the bank MsgSend handler panic for one magic recipient (a hook message
// whose handler panics).
type panicBankMsgServer struct {
	banktypes.MsgServer
	PanicTo *string
}

func (p panicBankMsgServer) Send(ctx context.Context, msg *banktypes.MsgSend) (*banktypes.MsgSendResponse, error) {
	if p.PanicTo != nil && *p.PanicTo != "" && msg.ToAddress == *p.PanicTo {
		panic("hook message handler panics")
	}
	return p.MsgServer.Send(ctx, msg)
}

type Fixture struct {
	Cdc       codec.Codec
	Registry  codectypes.InterfaceRegistry
	TxConfig  client.TxConfig
	AC        address.Codec
	Account   authkeeper.AccountKeeper
	Bank      bankkeeper.BaseKeeper
	Child     *opchildkeeper.Keeper
	Querier   opchildtypes.QueryServer
	Oracle    *oraclekeeper.Keeper
	Router    *baseapp.MsgServiceRouter
	Keys      map[string]*storetypes.KVStoreKey
	Authority string
	LastRaw   string // raw record of the last delivery (result, error text, response bytes, ordered events) for determinism checks
	Fault     *Fault
	PanicTo   *string
}

func makeCodec() (codec.Codec, codectypes.InterfaceRegistry, client.TxConfig) {
	reg, err := codectypes.NewInterfaceRegistryWithOptions(codectypes.InterfaceRegistryOptions{
		ProtoFiles: proto.HybridResolver,
		SigningOptions: signing.Options{
			AddressCodec:          codecaddress.NewBech32Codec(sdk.GetConfig().GetBech32AccountAddrPrefix()),
			ValidatorAddressCodec: codecaddress.NewBech32Codec(sdk.GetConfig().GetBech32ValidatorAddrPrefix()),
		},
	})
	if err != nil {
		panic(err)
	}
	cdc := codec.NewProtoCodec(reg)
	std.RegisterInterfaces(reg)
	moduleBasics.RegisterInterfaces(reg)
	authz.RegisterInterfaces(reg)
	return cdc, reg, authtx.NewTxConfig(cdc, authtx.DefaultSignModes)
}

// NewFixture builds a fresh L2 chain at height 1.
func NewFixture() (*Fixture, sdk.Context) { return newFixture(true) }

// newFixture: precreate=false leaves the account store empty (used when auth genesis is imported).
func newFixture(precreate bool) (*Fixture, sdk.Context) {
	db := dbm.NewMemDB()
	keys := storetypes.NewKVStoreKeys(authtypes.StoreKey, banktypes.StoreKey, opchildtypes.StoreKey, oracletypes.StoreKey)
	ms := store.NewCommitMultiStore(db, log.NewNopLogger(), metrics.NewNoOpMetrics())
	for _, k := range keys {
		ms.MountStoreWithDB(k, storetypes.StoreTypeIAVL, db)
	}
	if err := ms.LoadLatestVersion(); err != nil {
		panic(err)
	}
	ctx := sdk.NewContext(ms, tmproto.Header{Height: 1, Time: l1.TickTime(0), ChainID: ChainID}, false, log.NewNopLogger())

	cdc, reg, txConfig := makeCodec()
	maccPerms := map[string][]string{
		authtypes.FeeCollectorName: nil,
		opchildtypes.ModuleName:    {authtypes.Burner, authtypes.Minter},
		authtypes.Minter:           {authtypes.Minter, authtypes.Burner},
	}
	ac := authcodec.NewBech32Codec(sdk.GetConfig().GetBech32AccountAddrPrefix())
	authority := authtypes.NewModuleAddress(opchildtypes.ModuleName).String()
	ak := authkeeper.NewAccountKeeper(cdc, runtime.NewKVStoreService(keys[authtypes.StoreKey]), authtypes.ProtoBaseAccount,
		maccPerms, ac, sdk.GetConfig().GetBech32AccountAddrPrefix(), authority)
	if err := ak.Params.Set(ctx, authtypes.DefaultParams()); err != nil {
		panic(err)
	}
	blocked := map[string]bool{}
	for acc := range maccPerms {
		blocked[authtypes.NewModuleAddress(acc).String()] = true
	}
	bk := bankkeeper.NewBaseKeeper(cdc, runtime.NewKVStoreService(keys[banktypes.StoreKey]), ak, blocked, authority, log.NewNopLogger())
	if err := bk.SetParams(ctx, banktypes.DefaultParams()); err != nil {
		panic(err)
	}
	router := baseapp.NewMsgServiceRouter()
	router.SetInterfaceRegistry(reg)
	panicTo := new(string)
	banktypes.RegisterMsgServer(router, panicBankMsgServer{bankkeeper.NewMsgServerImpl(bk), panicTo})

	ok := oraclekeeper.NewKeeper(runtime.NewKVStoreService(keys[oracletypes.StoreKey]), cdc, nil, authtypes.NewModuleAddress(opchildtypes.ModuleName))
	fault := &Fault{}
	ck := opchildkeeper.NewKeeper(cdc, runtime.NewKVStoreService(keys[opchildtypes.StoreKey]), ak, &faultBank{bk, fault}, &ok,
		sdk.ChainAnteDecorators(
			authante.NewSetPubKeyDecorator(ak),
			authante.NewValidateSigCountDecorator(ak),
			authante.NewSigGasConsumeDecorator(ak, authante.DefaultSigVerificationGasConsumer),
			authante.NewSigVerificationDecorator(ak, txConfig.SignModeHandler()),
			authante.NewIncrementSequenceDecorator(ak),
		),
		txConfig.TxDecoder(), router, authority,
		authcodec.NewBech32Codec(sdk.GetConfig().GetBech32AccountAddrPrefix()),
		authcodec.NewBech32Codec(sdk.GetConfig().GetBech32ValidatorAddrPrefix()),
		authcodec.NewBech32Codec(sdk.GetConfig().GetBech32ConsensusAddrPrefix()),
		log.NewNopLogger())
	opchildtypes.RegisterMsgServer(router, opchildkeeper.NewMsgServerImpl(ck))
	// create the module accounts up front so that account numbers of user accounts do not depend on history
	if precreate {
		names := make([]string, 0, len(maccPerms))
		for name := range maccPerms {
			names = append(names, name)
		}
		sort.Strings(names)
		for _, name := range names {
			ak.GetModuleAccount(ctx, name)
		}
	}
	return &Fixture{Cdc: cdc, Registry: reg, TxConfig: txConfig, AC: ac, Account: ak, Bank: bk, Child: ck, Querier: opchildkeeper.NewQuerier(ck),
		Oracle: &ok, Router: router, Keys: keys, Authority: authority, Fault: fault, PanicTo: panicTo}, ctx
}

type Result struct {
	OK     bool
	Err    error
	Panic  any
	Resp   proto.Message
	Events []abci.Event
}

func (r Result) ErrString() string {
	if r.Panic != nil {
		return fmt.Sprintf("panic: %v", r.Panic)
	}
	if r.Err != nil {
		return r.Err.Error()
	}
	return ""
}

// Deliver executes one message the way baseapp's runMsgs does (see l1.Deliver).
func Deliver(f *Fixture, ctx sdk.Context, msg sdk.Msg) (res Result) {
	defer func() {
		raw := fmt.Sprintf("ok=%v|err=%s|", res.OK, res.ErrString())
		if res.Resp != nil {
			if bz, err := proto.Marshal(res.Resp); err == nil {
				raw += fmt.Sprintf("resp=%x|", bz)
			}
		}
		for _, ev := range res.Events {
			raw += ev.Type + "{"
			for _, a := range ev.Attributes {
				raw += a.Key + "=" + a.Value + ";"
			}
			raw += "}"
		}
		f.LastRaw = raw
	}()
	bz, err := f.Cdc.MarshalInterface(msg)
	if err != nil {
		return Result{Err: fmt.Errorf("marshal: %w", err)}
	}
	var decoded sdk.Msg
	if err := f.Cdc.UnmarshalInterface(bz, &decoded); err != nil {
		return Result{Err: fmt.Errorf("unmarshal: %w", err)}
	}
	handler := f.Router.Handler(decoded)
	if handler == nil {
		return Result{Err: fmt.Errorf("no handler for %s", sdk.MsgTypeURL(decoded))}
	}
	cacheCtx, write := ctx.CacheContext()
	cacheCtx = cacheCtx.WithEventManager(sdk.NewEventManager())
	defer func() {
		if r := recover(); r != nil {
			res = Result{Panic: r}
		}
	}()
	out, err := handler(cacheCtx, decoded)
	if err != nil {
		return Result{Err: err}
	}
	write()
	var resp proto.Message
	if len(out.MsgResponses) == 1 {
		var m proto.Message
		if err := f.Cdc.UnpackAny(out.MsgResponses[0], &m); err == nil {
			resp = m
		} else if cached, ok := out.MsgResponses[0].GetCachedValue().(proto.Message); ok {
			resp = cached
		}
	}
	return Result{OK: true, Resp: resp, Events: out.Events}
}

func (f *Fixture) Mint(ctx sdk.Context, to sdk.AccAddress, coins sdk.Coins) {
	if err := f.Bank.MintCoins(ctx, authtypes.Minter, coins); err != nil {
		panic(err)
	}
	if to.Equals(authtypes.NewModuleAddress(opchildtypes.ModuleName)) {
		// genesis funds of the module account itself (blocked as a recipient of account transfers)
		if err := f.Bank.SendCoinsFromModuleToModule(ctx, authtypes.Minter, opchildtypes.ModuleName, coins); err != nil {
			panic(err)
		}
		return
	}
	if err := f.Bank.SendCoinsFromModuleToAccount(ctx, authtypes.Minter, to, coins); err != nil {
		panic(err)
	}
}
