package l2

import (
	"encoding/json"
	"io"
	"math/big"
	"math/rand"

	"verifharness/absx"
	"verifharness/l1"
)

// DriveOracleMeta is the run configuration of DriveOracle in the form of the walker's META line (used for replays).
func DriveOracleMeta() M {
	return M{"execs": []any{"e1"}, "client": "cl1", "chain": "l1-chain", "enabled": true, "pairs": []any{"BTC", "ETH", "TS"},
		"vals":  []any{"v1", "v2", "v3", "v4", "v5", "v6", "v7", "z"},
		"accts": []any{"e1", "x", "adm", "opchild", "feecollector"}, "denoms": []any{"n1"}, "funded": M{"x": M{"n1": int64(1)}},
		"params": M{"admin": "adm", "execs": []any{"e1"}, "maxVals": int64(3), "histEntries": int64(1), "hookGas": "ample", "fw": []any{}}, "devs": []any{}}
}

// DriveOracle runs seeded random oracle-relay histories on the real keeper (engine E3; validated by spec/Trace_Oracle.tla):
// host validator sets of one to seven validators with powers 1..6 (occasionally 1000), refreshed from the right / wrong / empty
// client at higher / equal / lower heights; vote lists over the current set in random order with every vote kind, unknown and
// repeated validators, three currency pairs, fresh / equal / stale timestamps.
func DriveOracle(out io.Writer, seed int64, runs, length int) (map[string]int, error) {
	enc := json.NewEncoder(out)
	stats := map[string]int{}
	vals := []string{"v1", "v2", "v3", "v4", "v5", "v6", "v7"}
	for run := 0; run < runs; run++ {
		r := rand.New(rand.NewSource(seed*1000003 + int64(run)))
		conc := l1.NewConc(seed*31+int64(run), big.NewInt(1))
		meta := DriveOracleMeta()
		cfg := RunCfg{Accts: []string{"e1", "x", "adm", "opchild", "feecollector"}, Denoms: []string{"n1"}, Funded: M{"x": M{"n1": int64(1)}}, Params: absx.Map(meta["params"])}
		ch := NewChain(conc, cfg)
		ch.InitOracle(OracleCfg{Client: "cl1", Chain: "l1-chain", Enabled: run%5 != 4, Pairs: []string{"BTC", "ETH", "TS"}, Vals: append(append([]string{}, vals...), "z")})
		if err := enc.Encode(M{"reset": true, "run": int64(run), "scale": "1", "seed": conc.Seed, "state": ch.ProjectOracle()}); err != nil {
			return nil, err
		}
		for i := 0; i < length; i++ {
			st := ch.ProjectOracle()
			hostH := absx.Int(st["hostH"])
			host := absx.Map(st["hostVals"])
			maxTs := int64(0)
			for _, p := range absx.Map(st["price"]) {
				if t := absx.Int(absx.Map(p)["ts"]); t > maxTs {
					maxTs = t
				}
			}
			var e M
			if r.Intn(20) == 0 {
				e = M{"type": "SetClient", "signer": pick(r, []string{"e1", "e1", "x"}), "client": pick(r, []string{"cl1", "", "other"}), "oracle": r.Intn(4) != 0}
			} else if len(host) == 0 || r.Intn(6) == 0 {
				set := M{}
				if len(host) > 1 && r.Intn(4) == 0 { // validators leave the L1 set, everybody else's power is unchanged
					drop := r.Intn(len(host))
					i := 0
					var names []string
					for v := range host {
						names = append(names, v)
					}
					for a := range names {
						for b := a + 1; b < len(names); b++ {
							if names[b] < names[a] {
								names[a], names[b] = names[b], names[a]
							}
						}
					}
					for _, v := range names {
						if i != drop {
							set[v] = host[v]
						}
						i++
					}
					e = M{"type": "UpdateHostSet", "client": "cl1", "height": hostH + 1, "set": set}
				}
				n := 1 + r.Intn(7)
				if e != nil {
					n = 0
				}
				for _, j := range r.Perm(7)[:n] {
					p := int64(1 + r.Intn(6))
					if r.Intn(15) == 0 {
						p = 1000
					}
					set[vals[j]] = p
				}
				if e == nil {
					e = M{"type": "UpdateHostSet", "client": pick(r, []string{"cl1", "cl1", "cl1", "cl1", "other", ""}), "height": hostH + int64(pick(r, []int{-1, 0, 1, 1, 2, 5})), "set": set}
					if absx.Int(e["height"]) < 1 {
						e["height"] = int64(1)
					}
				}
			} else {
				var names []string
				for v := range host {
					names = append(names, v)
				}
				// deterministic base order, then shuffled by the seeded generator
				for a := range names {
					for b := a + 1; b < len(names); b++ {
						if names[b] < names[a] {
							names[a], names[b] = names[b], names[a]
						}
					}
				}
				r.Shuffle(len(names), func(a, b int) { names[a], names[b] = names[b], names[a] })
				ts := maxTs + int64(pick(r, []int{1, 1, 1, 2, 3, 0}))
				px := func() M {
					p := M{"BTC": int64(r.Intn(6)), "ETH": int64(r.Intn(4))}
					t := ts
					switch r.Intn(10) {
					case 0:
						t = ts + 1
					case 1:
						t = 0
					}
					return M{"kind": "prices", "ts": t, "p": p}
				}
				var votes []any
				for _, v := range names {
					switch w := r.Intn(40); {
					case w < 28:
						votes = append(votes, M{"val": v, "flag": "commit", "sig": "ok", "ext": px()})
					case w < 32:
						votes = append(votes, M{"val": v, "flag": "absent", "sig": "missing", "ext": M{"kind": "none"}})
					case w < 34:
						votes = append(votes, M{"val": v, "flag": "nil", "sig": "missing", "ext": M{"kind": "none"}})
					case w < 35:
						votes = append(votes, M{"val": v, "flag": "commit", "sig": pick(r, []string{"bad", "missing", "wrongChain", "wrongHeight", "wrongRound", "swapped"}), "ext": px()})
					case w < 36:
						votes = append(votes, M{"val": v, "flag": "commit", "sig": "ok", "ext": M{"kind": "none"}})
					case w < 37:
						votes = append(votes, M{"val": v, "flag": pick(r, []string{"nil", "absent"}), "sig": pick(r, []string{"ok", "missing"}), "ext": px()})
					case w < 38:
						votes = append(votes, M{"val": v, "flag": "commit", "sig": "ok", "ext": M{"kind": "garbage"}})
					default: // does not vote at all
					}
				}
				switch r.Intn(12) {
				case 0:
					votes = append(votes, M{"val": "z", "flag": "commit", "sig": pick(r, []string{"ok", "bad"}), "ext": px()})
				case 1:
					if len(names) > 0 {
						votes = append(votes, M{"val": names[0], "flag": "commit", "sig": pick(r, []string{"ok", "ok", "bad"}), "ext": px()})
					}
				}
				if votes == nil {
					votes = []any{}
				}
				e = M{"type": "UpdateOracle", "signer": pick(r, []string{"e1", "e1", "e1", "e1", "e1", "e1", "e1", "x"}), "height": hostH + int64(pick(r, []int{0, 0, 0, 1, 3, -1})), "votes": votes}
				if r.Intn(25) == 0 {
					e["height"] = int64(0)
				}
			}
			o := ch.Exec(e)
			stats[absx.Str(e["type"])]++
			if o.OK {
				stats["ok:"+absx.Str(e["type"])]++
			}
			resp := o.Resp
			if resp == nil {
				resp = M{"none": true}
			}
			if err := enc.Encode(M{"run": int64(run), "i": int64(i), "e": e, "ok": o.OK, "resp": resp, "err": o.Err, "state": ch.ProjectOracle()}); err != nil {
				return nil, err
			}
		}
	}
	return stats, nil
}
