package l2

import (
	"encoding/json"
	"fmt"
	"io"
	"math/big"
	"math/rand"

	"verifharness/absx"
	"verifharness/l1"
)

// DriveVal runs seeded random validator-set histories on the real keeper (engine E3; validated by
// spec/Trace_Val.tla): eight operators and keys, up to sixty blocks, several operations per block in any
// grouping, max-validators and retention changes, plans, genesis round trips.
// DriveValMeta is the run configuration of DriveVal in the form the walker's META line has (used for replays).
func DriveValMeta() M {
	return M{"ops": []any{"v1", "v2", "v3", "v4", "v5", "v6", "v7", "v8"}, "keys": []any{"k1", "k2", "k3", "k4", "k5", "k6", "k7", "k8"},
		"accts": []any{"adm", "e1", "e2", "x", "opchild", "feecollector"}, "denoms": []any{"n1"}, "funded": M{"x": M{"n1": int64(1)}},
		"params": M{"admin": "adm", "execs": []any{"e1"}, "maxVals": int64(3), "histEntries": int64(1), "hookGas": "ample", "fw": []any{}}, "devs": []any{}}
}

func DriveVal(out io.Writer, seed int64, runs, length int) (map[string]int, error) {
	enc := json.NewEncoder(out)
	stats := map[string]int{}
	ops := []string{"v1", "v2", "v3", "v4", "v5", "v6", "v7", "v8"}
	keys := []string{"k1", "k2", "k3", "k4", "k5", "k6", "k7", "k8"}
	for run := 0; run < runs; run++ {
		r := rand.New(rand.NewSource(seed*1000003 + int64(run)))
		conc := l1.NewConc(seed*31+int64(run), big.NewInt(1))
		cfg := RunCfg{Accts: []string{"adm", "e1", "e2", "x", "opchild", "feecollector"}, Denoms: []string{"n1"}, Funded: M{"x": M{"n1": int64(1)}},
			Params: M{"admin": "adm", "execs": []any{"e1"}, "maxVals": int64(3), "histEntries": int64(1), "hookGas": "ample", "fw": []any{}}}
		ch := NewChain(conc, cfg)
		ch.InitVal(ops, keys)
		if err := enc.Encode(M{"reset": true, "run": int64(run), "scale": "1", "seed": conc.Seed, "state": ch.ProjectVal()}); err != nil {
			return nil, err
		}
		params := func() M {
			return M{"admin": "adm", "execs": []any{"e1"}, "maxVals": int64(1 + r.Intn(6)), "histEntries": int64(r.Intn(4)), "hookGas": "ample", "fw": []any{}}
		}
		for i := 0; i < length; i++ {
			st := ch.ProjectVal()
			var e M
			phase := absx.Str(st["phase"])
			vals := absx.Map(st["vals"])
			switch {
			case phase == "pre":
				n := r.Intn(4)
				var gv []any
				for j := 0; j < n; j++ {
					p := int64(1)
					switch r.Intn(8) {
					case 0:
						p = 0
					case 1:
						p = int64(2 + r.Intn(5))
					}
					gv = append(gv, M{"op": ops[j], "key": keys[j], "power": p})
				}
				if gv == nil {
					gv = []any{}
				}
				e = M{"type": "InitGenesis", "params": params(), "vals": gv}
			case absx.Bool(st["halted"]):
				e = M{"type": "ExportImport"}
			case phase == "out":
				if r.Intn(6) == 0 {
					e = M{"type": "ExecProbe", "signer": pick(r, []string{"e1", "e2"})}
				} else if r.Intn(12) == 0 {
					e = M{"type": "ExportImport"}
				} else {
					e = M{"type": "BeginBlock"}
				}
			default: // inside a block
				switch w := r.Intn(115); {
				case w >= 100:
					e = M{"type": "Query", "q": pick(r, []string{"Validators", "Validators", "Validators", "Validator", "ValidatorByConsAddr", "LastValidators", "Params", "StakingParams"}),
						"op": pick(r, append(ops, l1.BadNotBech32)), "key": pick(r, keys), "offset": int64(r.Intn(5)), "limit": int64(r.Intn(4)), "reverse": r.Intn(3) == 0}
				case w < 30:
					e = M{"type": "AddValidator", "signer": pick(r, []string{"opchild", "opchild", "opchild", "opchild", "x"}), "op": pick(r, ops), "key": pick(r, keys)}
				case w < 50:
					op := pick(r, ops)
					if len(vals) > 0 && r.Intn(4) != 0 {
						for k := range vals {
							op = k
							break
						}
					}
					// never remove the last bonded validator (an empty engine set is outside the property's domain)
					bonded := 0
					for _, v := range vals {
						if absx.Int(absx.Map(v)["power"]) > 0 {
							bonded++
						}
					}
					if v, ok := vals[op]; ok && absx.Int(absx.Map(v)["power"]) > 0 && bonded <= 1 {
						e = M{"type": "AddValidator", "signer": "opchild", "op": pick(r, ops), "key": pick(r, keys)}
					} else {
						e = M{"type": "RemoveValidator", "signer": pick(r, []string{"opchild", "opchild", "opchild", "x"}), "op": op}
					}
				case w < 58:
					e = M{"type": "UpdateParams", "signer": pick(r, []string{"opchild", "opchild", "x"}), "params": params()}
				case w < 62:
					h := absx.Int(st["height"]) + int64(r.Intn(3))
					e = M{"type": "RegisterPlan", "id": int64(pick(r, []int{1, 1, 1, 0})), "height": h, "op": pick(r, append(ops, l1.BadNotBech32)), "key": pick(r, append(keys, "nil")),
						"execs": pick(r, [][]any{{"e2"}, {"e1", "e2"}, {"e2", "e2"}, {"e1", "e2", "e1"}, {"up:e2"}, {l1.BadNotBech32}})}
				default:
					e = M{"type": "EndBlock"}
				}
			}
			o := ch.Exec(e)
			stats[absx.Str(e["type"])]++
			if o.OK {
				stats["ok:"+absx.Str(e["type"])]++
			}
			resp := o.Resp
			if resp == nil {
				resp = M{"none": true}
			}
			if err := enc.Encode(M{"run": int64(run), "i": int64(i), "e": e, "ok": o.OK, "resp": resp, "err": o.Err, "state": ch.ProjectVal()}); err != nil {
				return nil, err
			}
		}
	}
	_ = fmt.Sprint
	return stats, nil
}
