// Package absx holds helpers for the JSON-closed abstract values shared with the TLA+ specification.
package absx

import (
	"encoding/json"
	"fmt"
	"math"
	"sort"
	"strings"
)

type M = map[string]any

// Norm brings a decoded JSON value into canonical form: numbers -> int64, empty array/object -> nil-map
// (TLC's Json module writes the empty function as [] and reads {} as the empty record).
func Norm(v any) any {
	switch x := v.(type) {
	case map[string]any:
		if len(x) == 0 {
			return M{}
		}
		out := M{}
		for k, e := range x {
			out[k] = Norm(e)
		}
		return out
	case []any:
		if len(x) == 0 {
			return M{}
		}
		out := make([]any, len(x))
		for i, e := range x {
			out[i] = Norm(e)
		}
		return out
	case float64:
		if x == math.Trunc(x) {
			return int64(x)
		}
		return x
	case int:
		return int64(x)
	case uint64:
		return int64(x)
	case json.Number:
		i, _ := x.Int64()
		return i
	default:
		return v
	}
}

// Canon renders a normalised value deterministically (sorted keys).
func Canon(v any) string {
	var sb strings.Builder
	canon(&sb, Norm(v))
	return sb.String()
}

func canon(sb *strings.Builder, v any) {
	switch x := v.(type) {
	case M:
		keys := make([]string, 0, len(x))
		for k := range x {
			keys = append(keys, k)
		}
		sort.Strings(keys)
		sb.WriteByte('{')
		for i, k := range keys {
			if i > 0 {
				sb.WriteByte(',')
			}
			b, _ := json.Marshal(k)
			sb.Write(b)
			sb.WriteByte(':')
			canon(sb, x[k])
		}
		sb.WriteByte('}')
	case []any:
		sb.WriteByte('[')
		for i, e := range x {
			if i > 0 {
				sb.WriteByte(',')
			}
			canon(sb, e)
		}
		sb.WriteByte(']')
	default:
		b, _ := json.Marshal(x)
		sb.Write(b)
	}
}

// Diff returns the paths (dot separated, top-level first) at which a and b differ.
func Diff(a, b any) []string {
	var out []string
	diff("", Norm(a), Norm(b), &out)
	return out
}

func diff(path string, a, b any, out *[]string) {
	am, aok := a.(M)
	bm, bok := b.(M)
	if aok && bok {
		keys := map[string]bool{}
		for k := range am {
			keys[k] = true
		}
		for k := range bm {
			keys[k] = true
		}
		ks := make([]string, 0, len(keys))
		for k := range keys {
			ks = append(ks, k)
		}
		sort.Strings(ks)
		for _, k := range ks {
			av, ain := am[k]
			bv, bin := bm[k]
			p := k
			if path != "" {
				p = path + "." + k
			}
			if !ain || !bin {
				*out = append(*out, p)
				continue
			}
			diff(p, av, bv, out)
		}
		return
	}
	if Canon(a) != Canon(b) {
		if path == "" {
			path = "<root>"
		}
		*out = append(*out, path)
	}
}

func Str(v any) string {
	if s, ok := v.(string); ok {
		return s
	}
	return fmt.Sprint(v)
}

func Int(v any) int64 {
	switch x := Norm(v).(type) {
	case int64:
		return x
	case float64:
		return int64(x)
	}
	panic(fmt.Sprintf("absx.Int: not a number: %#v", v))
}

func Bool(v any) bool { b, _ := v.(bool); return b }

func Map(v any) M {
	switch x := v.(type) {
	case M:
		return x
	case []any:
		if len(x) == 0 {
			return M{}
		}
	case nil:
		return M{}
	}
	panic(fmt.Sprintf("absx.Map: not an object: %#v", v))
}

func List(v any) []any {
	switch x := v.(type) {
	case []any:
		return x
	case M:
		if len(x) == 0 {
			return nil
		}
	case nil:
		return nil
	}
	panic(fmt.Sprintf("absx.List: not a list: %#v", v))
}
