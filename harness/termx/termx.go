// Package termx is the generic evaluator of the term algebra of spec/Formats.tla.  It knows the
// primitives only (be64, str, byte, lit, cat, sha3, sha256, hex, sortpair, hole) and nothing about OPinit.
package termx

import (
	"bytes"
	"crypto/sha256"
	"encoding/binary"
	"encoding/hex"
	"fmt"

	"golang.org/x/crypto/sha3"

	"verifharness/absx"
)

// Env gives the value of each hole: uint64 for kind u64, string for str, []byte for b32, byte for byte.
type Env map[string]any

func Eval(t absx.M, env Env) []byte {
	switch absx.Str(t["op"]) {
	case "hole":
		v, ok := env[absx.Str(t["name"])]
		if !ok {
			panic("unbound hole " + absx.Str(t["name"]))
		}
		switch x := v.(type) {
		case []byte:
			return x
		default:
			panic(fmt.Sprintf("hole %s used as bytes but bound to %T", absx.Str(t["name"]), v))
		}
	case "be64":
		b := make([]byte, 8)
		binary.BigEndian.PutUint64(b, scalar(t["x"], env).(uint64))
		return b
	case "str":
		return []byte(scalar(t["x"], env).(string))
	case "byte":
		switch x := scalar(t["x"], env).(type) {
		case byte:
			return []byte{x}
		case uint64:
			return []byte{byte(x)}
		}
		panic("byte of non-byte")
	case "lit":
		return []byte(absx.Str(t["s"]))
	case "cat":
		var out []byte
		for _, x := range absx.List(t["xs"]) {
			out = append(out, Eval(absx.Map(x), env)...)
		}
		return out
	case "sha3":
		h := sha3.Sum256(Eval(absx.Map(t["x"]), env))
		return h[:]
	case "sha256":
		h := sha256.Sum256(Eval(absx.Map(t["x"]), env))
		return h[:]
	case "hex":
		return []byte(hex.EncodeToString(Eval(absx.Map(t["x"]), env)))
	case "sortpair":
		a, b := Eval(absx.Map(t["a"]), env), Eval(absx.Map(t["b"]), env)
		if bytes.Compare(a, b) <= 0 {
			return append(append([]byte{}, a...), b...)
		}
		return append(append([]byte{}, b...), a...)
	}
	panic("unknown term operator " + absx.Str(t["op"]))
}

// scalar evaluates the argument of be64/str/byte: a hole bound to a scalar, or a literal number.
func scalar(v any, env Env) any {
	switch x := absx.Norm(v).(type) {
	case int64:
		return uint64(x)
	case absx.M:
		if absx.Str(x["op"]) == "hole" {
			val, ok := env[absx.Str(x["name"])]
			if !ok {
				panic("unbound hole " + absx.Str(x["name"]))
			}
			return val
		}
	}
	panic(fmt.Sprintf("bad scalar %v", v))
}

// Holes lists the holes of a term as name -> kind.
func Holes(t any, out map[string]string) {
	switch x := t.(type) {
	case absx.M:
		if absx.Str(x["op"]) == "hole" {
			out[absx.Str(x["name"])] = absx.Str(x["kind"])
			return
		}
		for _, v := range x {
			Holes(v, out)
		}
	case []any:
		for _, v := range x {
			Holes(v, out)
		}
	}
}
