// Package antecheck decides C20: every input TLC enumerates for spec/Ante.tla is built as a real
// transaction and run through the real decorators / lane match handlers; the decision must equal the
// specification's.
package antecheck

import (
	"bufio"
	"encoding/json"
	"errors"
	"math/big"
	"os"
	"sort"
	"strings"

	"cosmossdk.io/math"
	sdk "github.com/cosmos/cosmos-sdk/types"
	"github.com/cosmos/cosmos-sdk/x/authz"
	banktypes "github.com/cosmos/cosmos-sdk/x/bank/types"

	opchildante "github.com/initia-labs/OPinit/x/opchild/ante"
	"github.com/initia-labs/OPinit/x/opchild/lanes"
	opchildtypes "github.com/initia-labs/OPinit/x/opchild/types"

	"verifharness/absx"
	"verifharness/l1"
	"verifharness/l2"
)

type M = absx.M

type Mismatch struct {
	Fn     string `json:"fn"`
	Case   M      `json:"case"`
	Want   any    `json:"want"`
	Got    any    `json:"got"`
	Stated bool   `json:"stated"`
	Err    string `json:"err,omitempty"`
}

type Report struct {
	Cases      int            `json:"cases"`
	ByFn       map[string]int `json:"by_fn"`
	Mismatches []Mismatch     `json:"mismatches"`
	NMismatch  int            `json:"n_mismatch"`
	Samples    []M            `json:"samples"`
}

func readCases(path string) ([]M, error) {
	fh, err := os.Open(path)
	if err != nil {
		return nil, err
	}
	defer fh.Close()
	var out []M
	sc := bufio.NewScanner(fh)
	sc.Buffer(make([]byte, 1<<20), 1<<26)
	for sc.Scan() {
		line := sc.Text()
		if !strings.HasPrefix(line, `"CASE `) {
			continue
		}
		var s string
		if err := json.Unmarshal([]byte(line), &s); err != nil {
			return nil, err
		}
		var obj map[string]any
		if err := json.Unmarshal([]byte(s[5:]), &obj); err != nil {
			return nil, err
		}
		out = append(out, absx.Map(absx.Norm(obj)))
	}
	sort.Slice(out, func(i, j int) bool { return absx.Canon(out[i]) < absx.Canon(out[j]) })
	return out, sc.Err()
}

type env struct {
	ch *l2.Chain
	c  *l1.Conc
}

func (e *env) decCoins(v M) sdk.DecCoins {
	var out sdk.DecCoins
	for d, n := range v {
		if absx.Int(n) == 0 {
			continue
		}
		out = out.Add(sdk.NewDecCoinFromDec(e.c.Denom(d), math.LegacyNewDecWithPrec(absx.Int(n)*25, 2))) // n/4
	}
	return out.Sort()
}

func (e *env) coins(v M) sdk.Coins {
	var out sdk.Coins
	for d, n := range v {
		if absx.Int(n) == 0 {
			continue
		}
		out = out.Add(sdk.NewCoin(e.c.Denom(d), math.NewInt(absx.Int(n))))
	}
	return out.Sort()
}

func (e *env) msg(m M) sdk.Msg {
	c := e.c
	switch absx.Str(m["k"]) {
	case "oracle":
		return &opchildtypes.MsgUpdateOracle{Sender: c.Addr("e1"), Height: 10, Data: []byte("data")}
	case "send":
		return &banktypes.MsgSend{FromAddress: c.Addr("u1"), ToAddress: c.Addr("u2"), Amount: sdk.NewCoins(sdk.NewCoin(c.Denom("n1"), math.NewInt(1)))}
	case "deposit":
		to := c.Addr("u1")
		if b, ok := m["bounce"]; ok && absx.Bool(b) {
			to = c.Addr("opchild") // the module account: the bank refuses to credit it, the deposit is refunded
		}
		return &opchildtypes.MsgFinalizeTokenDeposit{Sender: c.Addr("e1"), From: c.Addr("u2"), To: to, Amount: sdk.NewCoin(c.Denom("l2/1/d1"), math.NewInt(1)),
			Sequence: uint64(absx.Int(m["seq"])), Height: 5, BaseDenom: c.Denom("d1")}
	case "exec":
		var inner []sdk.Msg
		for _, x := range absx.List(m["inner"]) {
			inner = append(inner, e.msg(absx.Map(x)))
		}
		ex := authz.NewMsgExec(c.AddrBytes("u1"), inner)
		return &ex
	}
	panic("unknown message kind " + absx.Str(m["k"]))
}

func (e *env) tx(msgs []sdk.Msg, fee sdk.Coins, gas uint64, payer, granter string) sdk.Tx {
	b := e.ch.F.TxConfig.NewTxBuilder()
	if err := b.SetMsgs(msgs...); err != nil {
		panic(err)
	}
	b.SetFeeAmount(fee)
	b.SetGasLimit(gas)
	if payer != "" {
		b.SetFeePayer(e.c.AddrBytes(payer))
	}
	if granter != "" {
		b.SetFeeGranter(e.c.AddrBytes(granter))
	}
	return b.GetTx()
}

// Run executes every case.
func Run(path string, seed int64) (*Report, error) {
	cases, err := readCases(path)
	if err != nil {
		return nil, err
	}
	rep := &Report{ByFn: map[string]int{}, Mismatches: []Mismatch{}, Samples: []M{}}
	conc := l1.NewConc(seed, big.NewInt(1))
	cfg := l2.RunCfg{Accts: []string{"e1", "adm", "u1", "u2", "w1", "w2", "opchild", "feecollector"}, Denoms: []string{"l2/1/d1", "n1", "da", "db"},
		Funded: M{"u1": M{"n1": int64(5)}}, Params: M{"admin": "adm", "execs": []any{"e1"}, "maxVals": int64(3), "histEntries": int64(1), "hookGas": "ample", "fw": []any{}}}
	ch := l2.NewChain(conc, cfg)
	e := &env{ch: ch, c: conc}
	// two deposits processed: next expected L1 sequence is 3
	for q := int64(1); q <= 2; q++ {
		o := ch.Exec(M{"type": "FinalizeTokenDeposit", "signer": "e1", "seq": q, "from": "u2", "to": "u1", "denom": "l2/1/d1", "amt": int64(1), "base": "d1", "height": int64(5),
			"hook": M{"kind": "none", "signer": "", "msgs": []any{}}, "fault": "none"})
		if !o.OK {
			panic("setup deposit failed: " + o.Err)
		}
	}
	feeChecker := opchildante.NewMempoolFeeChecker(ch.F.Child)
	redundant := opchildante.NewRedundantBridgeDecorator(ch.F.Child)
	system := lanes.SystemLaneMatchHandler()
	free := lanes.NewFreeLaneMatchHandler(ch.F.AC, ch.F.Child).MatchHandler()
	next := func(ctx sdk.Context, tx sdk.Tx, simulate bool) (sdk.Context, error) { return ctx, nil }
	lastChain := ""
	// like a running node, the configured min-gas-prices of one node configuration are ONE slice handed to every
	// CheckTx context; a checker that writes into it changes later decisions (and the slice is compared at the end)
	nodeSlices := map[string]sdk.DecCoins{}
	var chainCtx sdk.Context
	for _, cs := range cases {
		fn := absx.Str(cs["fn"])
		c := absx.Map(cs["c"])
		rep.Cases++
		rep.ByFn[fn]++
		var got any
		errStr := ""
		switch fn {
		case "fee":
			key := absx.Canon(c["chain"])
			if key != lastChain {
				cc, _ := ch.Ctx.CacheContext()
				p, err := ch.F.Child.GetParams(cc)
				if err != nil {
					panic(err)
				}
				p.MinGasPrices = e.decCoins(absx.Map(c["chain"]))
				if err := ch.F.Child.SetParams(cc, p); err != nil {
					panic(err)
				}
				chainCtx, lastChain = cc, key
			}
			nk := absx.Canon(c["node"])
			if _, ok := nodeSlices[nk]; !ok {
				nodeSlices[nk] = e.decCoins(absx.Map(c["node"]))
			}
			ctx := chainCtx.WithIsCheckTx(absx.Bool(c["check"])).WithMinGasPrices(nodeSlices[nk])
			tx := e.tx([]sdk.Msg{e.msg(M{"k": "send"})}, e.coins(absx.Map(c["fee"])), uint64(absx.Int(c["gas"])), "u1", "")
			_, _, err := feeChecker.CheckTxFeeWithMinGasPrices(ctx, tx)
			got = err == nil
			if err != nil {
				errStr = err.Error()
			}
		case "system":
			var msgs []sdk.Msg
			for _, m := range absx.List(c["msgs"]) {
				msgs = append(msgs, e.msg(absx.Map(m)))
			}
			got = system(ch.Ctx, e.tx(msgs, nil, 100000, "u1", ""))
		case "free":
			cc, _ := ch.Ctx.CacheContext()
			p, err := ch.F.Child.GetParams(cc)
			if err != nil {
				panic(err)
			}
			p.FeeWhitelist = []string{}
			for _, w := range absx.List(c["whitelist"]) {
				p.FeeWhitelist = append(p.FeeWhitelist, conc.Addr(absx.Str(w)))
			}
			// as a parameter update would: an update the chain refuses leaves the previous (empty) whitelist in force
			if err := ch.F.Child.SetParams(cc, p); err != nil {
				errStr = "whitelist update refused: " + err.Error()
			}
			got = free(cc, e.tx([]sdk.Msg{e.msg(M{"k": "send"})}, nil, 100000, absx.Str(c["payer"]), absx.Str(c["granter"])))
		case "redundant":
			var msgs []sdk.Msg
			for _, m := range absx.List(c["msgs"]) {
				msgs = append(msgs, e.msg(absx.Map(m)))
			}
			cc, _ := ch.Ctx.CacheContext()
			switch absx.Str(c["mode"]) {
			case "check":
				cc = cc.WithIsCheckTx(true)
			case "recheck":
				cc = cc.WithIsReCheckTx(true)
			}
			_, err := redundant.AnteHandle(cc, e.tx(msgs, nil, 100000, "e1", ""), absx.Bool(c["simulate"]), next)
			switch {
			case err == nil:
				got = "pass"
			case errors.Is(err, opchildtypes.ErrRedundantTx):
				got = "redundant"
			default:
				got = "error"
				errStr = err.Error()
			}
		default:
			panic("unknown case fn " + fn)
		}
		if absx.Canon(got) != absx.Canon(cs["want"]) {
			rep.NMismatch++
			stated := true
			if s, ok := cs["stated"]; ok {
				stated = absx.Bool(s)
			}
			if len(rep.Mismatches) < 60 {
				rep.Mismatches = append(rep.Mismatches, Mismatch{Fn: fn, Case: c, Want: cs["want"], Got: got, Stated: stated, Err: errStr})
			}
		}
		if len(rep.Samples) < 5 && rep.Cases%6007 == 1 {
			rep.Samples = append(rep.Samples, M{"fn": fn, "case": c, "spec": cs["want"], "impl": got})
		}
	}
	for nk, sl := range nodeSlices {
		var node M
		if err := json.Unmarshal([]byte(nk), &node); err != nil {
			panic(err)
		}
		if fresh := e.decCoins(absx.Map(absx.Norm(node))); fresh.String() != sl.String() {
			rep.NMismatch++
			rep.Mismatches = append(rep.Mismatches, Mismatch{Fn: "fee", Case: M{"node": absx.Norm(node), "note": "the node's configured min-gas-prices were modified by the fee checker"}, Want: fresh.String(), Got: sl.String(), Stated: true})
		}
	}
	return rep, nil
}
