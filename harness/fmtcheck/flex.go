package fmtcheck

import (
	"fmt"
	"reflect"
)

// flex calls one of the repository's format functions through reflection, so that a change of a parameter or result
// between a fixed-size array and a slice (a refactoring that leaves the repository compiling) does not stop the harness
// from building.  Array-typed inputs are passed as pointers (*[32]byte): when the function takes a slice it receives a
// slice OVER the caller's array, so that a function that writes into its argument is seen by the purity comparison.
// The first result is returned as bytes.
func flex(fn any, args ...any) []byte {
	fv := reflect.ValueOf(fn)
	ft := fv.Type()
	if ft.NumIn() != len(args) || ft.NumOut() < 1 {
		panic(fmt.Sprintf("flex: %v takes %d arguments and returns %d values; the harness passes %d", ft, ft.NumIn(), ft.NumOut(), len(args)))
	}
	in := make([]reflect.Value, len(args))
	for i, a := range args {
		in[i] = adapt(reflect.ValueOf(a), ft.In(i))
	}
	out := fv.Call(in)[0]
	return toBytes(out)
}

func adapt(v reflect.Value, t reflect.Type) reflect.Value {
	if v.Type() == t {
		return v
	}
	isBytes := func(t reflect.Type) bool { return t.Kind() == reflect.Slice && t.Elem().Kind() == reflect.Uint8 }
	isArr := func(t reflect.Type) bool { return t.Kind() == reflect.Array && t.Elem().Kind() == reflect.Uint8 }
	switch {
	case v.Kind() == reflect.Ptr && isArr(v.Type().Elem()) && isArr(t): // *[32]byte -> [32]byte
		if v.Type().Elem() == t {
			return v.Elem()
		}
		out := reflect.New(t).Elem()
		reflect.Copy(out, v.Elem())
		return out
	case v.Kind() == reflect.Ptr && isArr(v.Type().Elem()) && isBytes(t): // *[32]byte -> slice over the caller's array
		return v.Elem().Slice(0, v.Elem().Len()).Convert(t)
	case isBytes(v.Type()) && isArr(t): // []byte -> [N]byte
		out := reflect.New(t).Elem()
		reflect.Copy(out, v)
		return out
	case isBytes(v.Type()) && isBytes(t):
		return v.Convert(t)
	case v.Type().ConvertibleTo(t):
		return v.Convert(t)
	}
	panic(fmt.Sprintf("flex: cannot pass %v as %v", v.Type(), t))
}

func toBytes(v reflect.Value) []byte {
	switch {
	case v.Kind() == reflect.Array && v.Type().Elem().Kind() == reflect.Uint8:
		b := make([]byte, v.Len())
		reflect.Copy(reflect.ValueOf(b), v)
		return b
	case v.Kind() == reflect.Slice && v.Type().Elem().Kind() == reflect.Uint8:
		return append([]byte{}, v.Bytes()...)
	case v.Kind() == reflect.String:
		return []byte(v.String())
	}
	panic(fmt.Sprintf("flex: result of type %v", v.Type()))
}
