package fmtcheck

import "math/big"

func bigOne() *big.Int { return big.NewInt(1) }
