// Package fmtcheck decides C17: the chain's commitment/identifier functions against the term algebra
// of spec/Formats.tla (evaluated by the generic evaluator) for seeded inputs per structural case, and
// the purity / layout independence of the root-from-proof fold for every layout of spec/SliceMem.tla.
package fmtcheck

import (
	"bufio"
	"bytes"
	"encoding/hex"
	"encoding/json"
	"fmt"
	"math/rand"
	"os"
	"sort"
	"strings"

	"cosmossdk.io/math"
	sdk "github.com/cosmos/cosmos-sdk/types"

	ophostkeeper "github.com/initia-labs/OPinit/x/ophost/keeper"
	ophosttypes "github.com/initia-labs/OPinit/x/ophost/types"

	"verifharness/absx"
	"verifharness/fmtx"
	"verifharness/l1"
	"verifharness/termx"
)

type M = absx.M

type Mismatch struct {
	Kind   string `json:"kind"` // format | commutes | pure | layout | evaluator | vector
	Fn     string `json:"fn"`
	Detail M      `json:"detail"`
}

type Report struct {
	Cases       int            `json:"cases"`
	Layouts     int            `json:"layouts"`
	Evaluations int            `json:"evaluations"`
	ByFn        map[string]int `json:"by_fn"`
	Mismatches  []Mismatch     `json:"mismatches"`
	NMismatch   int            `json:"n_mismatch"`
	Samples     []M            `json:"samples"`
	Vectors     int            `json:"vectors_checked"`
	LayoutSkips int            `json:"layout_patterns_not_reached"`
}

func (r *Report) add(m Mismatch) {
	r.NMismatch++
	if len(r.Mismatches) < 40 {
		r.Mismatches = append(r.Mismatches, m)
	}
}

func readTagged(path, tag string) ([]M, error) {
	fh, err := os.Open(path)
	if err != nil {
		return nil, err
	}
	defer fh.Close()
	var out []M
	sc := bufio.NewScanner(fh)
	sc.Buffer(make([]byte, 1<<20), 1<<26)
	for sc.Scan() {
		line := sc.Text()
		if !strings.HasPrefix(line, `"`+tag+` `) {
			continue
		}
		var s string
		if err := json.Unmarshal([]byte(line), &s); err != nil {
			return nil, err
		}
		var obj map[string]any
		if err := json.Unmarshal([]byte(s[len(tag)+1:]), &obj); err != nil {
			return nil, err
		}
		out = append(out, absx.Map(absx.Norm(obj)))
	}
	sort.Slice(out, func(i, j int) bool { return absx.Canon(out[i]) < absx.Canon(out[j]) })
	return out, sc.Err()
}

var interestingU64 = []uint64{0, 1, 2, 255, 256, 1<<32 - 1, 1 << 32, 1<<63 - 1, 1 << 63, 1<<64 - 1}
var interestingStr = []string{"", "a", "init1qqqqqqqqqqqqqqqqqqqqqqqqqqqqqqqq3l3rv", "uinit", "ibc/27394FB092D2ECCD56123C74F36E4C1F926001CEADA9CA97EA622B25F41E5EB2",
	"日本語のアドレス", "with\x00nul", "l2/" + strings.Repeat("ab", 32), strings.Repeat("x", 1024), "a|b", " leading and trailing "}

func fill(kind string, rng *rand.Rand) any {
	switch kind {
	case "u64":
		if rng.Intn(3) == 0 {
			return interestingU64[rng.Intn(len(interestingU64))]
		}
		return rng.Uint64()
	case "str":
		if rng.Intn(2) == 0 {
			return interestingStr[rng.Intn(len(interestingStr))]
		}
		b := make([]byte, rng.Intn(70))
		rng.Read(b)
		return string(b)
	case "b32":
		b := make([]byte, 32)
		switch rng.Intn(8) {
		case 0: // zeros
		case 1:
			for i := range b {
				b[i] = 0xff
			}
		default:
			rng.Read(b)
		}
		return b
	case "byte":
		return byte(rng.Intn(256))
	}
	panic("kind " + kind)
}

func clone(b []byte) []byte { return append([]byte{}, b...) }

// Run checks all cases and layouts. rounds = seeded fills per case.
func Run(casesPath, layoutsPath, vectorsPath string, seed int64, rounds int, writeVectors bool) (*Report, error) {
	rep := &Report{ByFn: map[string]int{}, Mismatches: []Mismatch{}, Samples: []M{}}
	cases, err := readTagged(casesPath, "CASE")
	if err != nil {
		return nil, err
	}
	rep.Cases = len(cases)
	rng := rand.New(rand.NewSource(seed))
	vectors := M{}
	if !writeVectors && vectorsPath != "" {
		if bz, err := os.ReadFile(vectorsPath); err == nil {
			var v map[string]any
			if err := json.Unmarshal(bz, &v); err != nil {
				return nil, err
			}
			vectors = absx.Map(absx.Norm(v))
		}
	}
	newVectors := M{}
	for _, c := range cases {
		fn := absx.Str(c["fn"])
		term := absx.Map(c["term"])
		holes := map[string]string{}
		termx.Holes(term, holes)
		if p, ok := c["proof"]; ok {
			termx.Holes(p, holes)
		}
		names := make([]string, 0, len(holes))
		for n := range holes {
			names = append(names, n)
		}
		sort.Strings(names)
		key := fn + "/" + absx.Str(c["rel"])
		if n, ok := c["n"]; ok {
			key += fmt.Sprintf("/n=%d", absx.Int(n))
		}
		if i, ok := c["i"]; ok {
			key += fmt.Sprintf("/i=%d", absx.Int(i))
		}
		for r := -1; r < rounds; r++ {
			// round -1 is the pinned vector: holes filled from a fixed generator
			lrng := rng
			if r == -1 {
				lrng = rand.New(rand.NewSource(int64(len(key))*7919 + 17))
			}
			env := termx.Env{}
			for _, n := range names {
				env[n] = fill(holes[n], lrng)
			}
			if fn == "node" {
				a, b := env["a"].([]byte), env["b"].([]byte)
				switch absx.Str(c["rel"]) {
				case "eq":
					env["b"] = clone(a)
				case "lt":
					if bytes.Compare(a, b) > 0 {
						env["a"], env["b"] = b, a
					}
				case "gt":
					if bytes.Compare(a, b) < 0 {
						env["a"], env["b"] = b, a
					}
				case "adjacent":
					nb := clone(a)
					nb[31] ^= 1
					env["b"] = nb
				}
			}
			want := termx.Eval(term, env)
			got, pure, extra := callChain(fn, c, env)
			rep.Evaluations++
			rep.ByFn[fn]++
			if !bytes.Equal(want, got) {
				rep.add(Mismatch{Kind: "format", Fn: fn, Detail: M{"case": key, "env": envJSON(env), "spec": hex.EncodeToString(want), "chain": hex.EncodeToString(got)}})
			}
			if !pure {
				rep.add(Mismatch{Kind: "pure", Fn: fn, Detail: M{"case": key, "env": envJSON(env)}})
			}
			for k, v := range extra {
				if v != "" {
					rep.add(Mismatch{Kind: k, Fn: fn, Detail: M{"case": key, "env": envJSON(env), "what": v}})
				}
			}
			if r == -1 {
				newVectors[key] = hex.EncodeToString(want)
				if pinned, ok := vectors[key]; ok {
					rep.Vectors++
					if absx.Str(pinned) != hex.EncodeToString(want) {
						rep.add(Mismatch{Kind: "vector", Fn: fn, Detail: M{"case": key, "pinned": pinned, "evaluator": hex.EncodeToString(want)}})
					}
					if absx.Str(pinned) != hex.EncodeToString(got) {
						rep.add(Mismatch{Kind: "format", Fn: fn, Detail: M{"case": key, "pinned": pinned, "chain": hex.EncodeToString(got)}})
					}
				} else if !writeVectors && vectorsPath != "" {
					rep.add(Mismatch{Kind: "vector", Fn: fn, Detail: M{"case": key, "what": "no pinned vector"}})
				}
			}
			if len(rep.Samples) < 4 && r == 0 {
				rep.Samples = append(rep.Samples, M{"case": key, "env": envJSON(env), "value": hex.EncodeToString(want)})
			}
		}
	}
	if writeVectors {
		bz, _ := json.MarshalIndent(newVectors, "", " ")
		if err := os.WriteFile(vectorsPath, bz, 0o644); err != nil {
			return nil, err
		}
	}
	if layoutsPath != "" {
		layouts, err := readTagged(layoutsPath, "LAYOUT")
		if err != nil {
			return nil, err
		}
		rep.Layouts = len(layouts)
		hc := newHandlerCtx(seed)
		for _, l := range layouts {
			checkLayout(rep, l, rng, hc)
		}
	}
	return rep, nil
}

func envJSON(env termx.Env) M {
	out := M{}
	for k, v := range env {
		switch x := v.(type) {
		case []byte:
			out[k] = hex.EncodeToString(x)
		case string:
			out[k] = hex.EncodeToString([]byte(x))
		case uint64:
			out[k] = fmt.Sprint(x)
		case byte:
			out[k] = int64(x)
		}
	}
	return out
}

// callChain runs the chain's own function for a case; pure=false if an input byte slice was modified.
func callChain(fn string, c M, env termx.Env) (got []byte, pure bool, extra map[string]string) {
	extra = map[string]string{}
	pure = true
	switch fn {
	case "leaf":
		h := flex(ophosttypes.GenerateWithdrawalHash, env["bridge"].(uint64), env["seq"].(uint64), env["from"].(string), env["to"].(string), env["denom"].(string), env["amt"].(uint64))
		ind := fmtx.Leaf(env["bridge"].(uint64), env["seq"].(uint64), env["from"].(string), env["to"].(string), env["denom"].(string), env["amt"].(uint64))
		if !bytes.Equal(ind, termx.Eval(absx.Map(c["term"]), env)) {
			extra["evaluator"] = "harness fmtx.Leaf differs from Formats!Leaf"
		}
		return h[:], true, extra
	case "outputRoot":
		sr, bh := env["storageRoot"].([]byte), env["blockHash"].([]byte)
		sr0, bh0 := clone(sr), clone(bh)
		h := flex(ophosttypes.GenerateOutputRoot, env["version"].(byte), sr, bh)
		if !bytes.Equal(fmtx.OutputRoot(env["version"].(byte), sr0, bh0), termx.Eval(absx.Map(c["term"]), env)) {
			extra["evaluator"] = "harness fmtx.OutputRoot differs from Formats!OutputRoot"
		}
		return h[:], bytes.Equal(sr, sr0) && bytes.Equal(bh, bh0), extra
	case "l2denom":
		s := ophosttypes.L2Denom(env["bridge"].(uint64), env["denom"].(string))
		if fmtx.L2Denom(env["bridge"].(uint64), env["denom"].(string)) != string(termx.Eval(absx.Map(c["term"]), env)) {
			extra["evaluator"] = "harness fmtx.L2Denom differs from Formats!L2Denom"
		}
		return []byte(s), true, extra
	case "bridgeAddr":
		a := ophosttypes.BridgeAddress(env["bridge"].(uint64))
		if !bytes.Equal(fmtx.BridgeAddr(env["bridge"].(uint64)), termx.Eval(absx.Map(c["term"]), env)) {
			extra["evaluator"] = "harness fmtx.BridgeAddr differs from Formats!BridgeAddr"
		}
		return a.Bytes(), true, extra
	case "node":
		a, b := env["a"].([]byte), env["b"].([]byte)
		a0, b0 := clone(a), clone(b)
		h := flex(ophosttypes.GenerateNodeHash, a, b)
		h2 := flex(ophosttypes.GenerateNodeHash, b, a)
		if !bytes.Equal(h, h2) {
			extra["commutes"] = "GenerateNodeHash(a,b) != GenerateNodeHash(b,a)"
		}
		return h[:], bytes.Equal(a, a0) && bytes.Equal(b, b0), extra
	case "rootFromProof":
		var leaf [32]byte
		copy(leaf[:], env["leaf"].([]byte))
		n := int(absx.Int(c["n"]))
		var proofs, before [][]byte
		for i := 1; i <= n; i++ {
			p := env[fmt.Sprintf("P%d", i)].([]byte)
			proofs = append(proofs, p)
			before = append(before, clone(p))
		}
		leaf0 := leaf
		h := flex(ophosttypes.GenerateRootHashFromProofs, &leaf, proofs)
		for i := range proofs {
			if !bytes.Equal(proofs[i], before[i]) {
				pure = false
			}
		}
		if leaf != leaf0 { // (only possible when the function takes the leaf as a slice)
			pure = false
			leaf = leaf0
		}
		if !bytes.Equal(fmtx.RootFromProof(leaf[:], before), termx.Eval(absx.Map(c["term"]), env)) {
			extra["evaluator"] = "harness fmtx.RootFromProof differs from Formats!RootFromProof"
		}
		return h[:], pure, extra
	case "tree":
		n, i := int(absx.Int(c["n"])), int(absx.Int(c["i"]))
		var leaves [][]byte
		for k := 1; k <= n; k++ {
			leaves = append(leaves, env[fmt.Sprintf("L%d", k)].([]byte))
		}
		var proof [][]byte
		for _, pt := range absx.List(c["proof"]) {
			proof = append(proof, termx.Eval(absx.Map(pt), env))
		}
		var leaf [32]byte
		copy(leaf[:], leaves[i-1])
		h := flex(ophosttypes.GenerateRootHashFromProofs, &leaf, proof)
		// the harness's own tree builder must implement the same published rule
		root := termx.Eval(absx.Map(c["term"]), env)
		if !bytes.Equal(fmtx.TreeRoot(leaves), root) {
			extra["evaluator"] = "harness fmtx.TreeRoot differs from Formats!TreeRoot"
		}
		hp := fmtx.ProofFor(leaves, i-1)
		if len(hp) != len(proof) {
			extra["evaluator"] = "harness fmtx.ProofFor length differs from Formats!ProofFor"
		} else {
			for k := range hp {
				if !bytes.Equal(hp[k], proof[k]) {
					extra["evaluator"] = "harness fmtx.ProofFor differs from Formats!ProofFor"
				}
			}
		}
		return h[:], true, extra
	}
	panic("unknown case fn " + fn)
}

// ---- layouts ------------------------------------------------------------------------------------------

type handlerCtx struct {
	ch   *l1.Chain
	ms   ophostkeeper.MsgServer
	next uint64
	U    int64
}

// newHandlerCtx prepares an L1 chain with one bridge whose escrow is funded, so that a withdrawal can be
// finalized by calling the message handler directly (no protobuf round trip: the message's own memory
// layout reaches the verification code).
func newHandlerCtx(seed int64) *handlerCtx {
	conc := l1.NewConc(seed, bigOne())
	cfg := l1.DefaultRunCfg()
	cfg.Amt0 = 1 << 20
	ch := l1.NewChain(conc, cfg)
	must := func(e M) {
		if o := ch.Exec(e); !o.OK {
			panic("layout handler setup: " + o.Err)
		}
	}
	must(M{"type": "CreateBridge", "signer": "u1", "cfg": M{"proposer": "p1", "challenger": "c1", "period": int64(2), "interval": int64(2), "startH": int64(1),
		"oracle": false, "meta": M{"cls": "none", "chs": []any{}}, "bsub": "s1", "bchain": "INITIA"}})
	must(M{"type": "InitiateTokenDeposit", "signer": "u1", "b": int64(1), "to": "u2", "denom": "d1", "amt": int64(1 << 19), "data": "p0"})
	return &handlerCtx{ch: ch, ms: ophostkeeper.NewMsgServerImpl(*ch.F.Host), next: 1}
}

func checkLayout(rep *Report, l M, rng *rand.Rand, hc *handlerCtx) {
	lay := absx.List(l["layout"])
	cmps := absx.List(l["cmps"])
	n := len(lay)
	// find values whose comparison pattern along the fold equals cmps
	var leaf []byte
	var vals [][]byte
	found := false
	for try := 0; try < 4000 && !found; try++ {
		leaf = fill("b32", rng).([]byte)
		vals = nil
		for i := 0; i < n; i++ {
			b := make([]byte, 32)
			rng.Read(b)
			vals = append(vals, b)
		}
		cur := clone(leaf)
		found = true
		for i := 0; i < n; i++ {
			if (bytes.Compare(cur, vals[i]) < 0) != absx.Bool(cmps[i]) {
				found = false
				break
			}
			cur = fmtx.Node(cur, vals[i])
		}
	}
	if !found {
		rep.LayoutSkips++
		return
	}
	build := func() (proofs [][]byte, bufs [][]byte) {
		nShared := 0
		for _, k := range lay {
			if absx.Str(k) == "shared" {
				nShared++
			}
		}
		shared := make([]byte, 32*nShared)
		if nShared > 0 {
			bufs = append(bufs, shared)
		}
		si := 0
		for i, k := range lay {
			switch absx.Str(k) {
			case "own-exact":
				b := make([]byte, 32)
				copy(b, vals[i])
				proofs = append(proofs, b)
				bufs = append(bufs, b)
			case "own-spare":
				b := make([]byte, 64)
				copy(b, vals[i])
				proofs = append(proofs, b[:32]) // len 32, cap 64
				bufs = append(bufs, b[:32])
			case "shared":
				copy(shared[32*si:], vals[i])
				proofs = append(proofs, shared[32*si:32*(si+1)]) // cap reaches to the end of the shared buffer
				si++
			}
		}
		return
	}
	expected := fmtx.RootFromProof(leaf, vals)
	key := absx.Canon(l)
	// 1. the pure function
	proofs, _ := build()
	var leafArr [32]byte
	copy(leafArr[:], leaf)
	got := flex(ophosttypes.GenerateRootHashFromProofs, &leafArr, proofs)
	if !bytes.Equal(leafArr[:], leaf) {
		rep.add(Mismatch{Kind: "pure", Fn: "GenerateRootHashFromProofs", Detail: M{"layout": key, "what": "the leaf passed by the caller was overwritten"}})
		copy(leafArr[:], leaf)
	}
	rep.Evaluations++
	rep.ByFn["layout"]++
	if !bytes.Equal(got[:], expected) {
		rep.add(Mismatch{Kind: "layout", Fn: "GenerateRootHashFromProofs", Detail: M{"layout": key, "what": "result depends on the memory layout of the proof list",
			"expected": hex.EncodeToString(expected), "got": hex.EncodeToString(got[:])}})
	}
	for i := range proofs {
		if !bytes.Equal(proofs[i], vals[i]) {
			rep.add(Mismatch{Kind: "pure", Fn: "GenerateRootHashFromProofs", Detail: M{"layout": key, "what": fmt.Sprintf("proof item %d was overwritten", i+1)}})
			break
		}
	}
	// 2. the message handler, called with the same layout
	hc.checkHandler(rep, key, vals, build)
	if len(rep.Samples) < 6 {
		rep.Samples = append(rep.Samples, M{"layout": l, "root": hex.EncodeToString(expected)})
	}
}

func (hc *handlerCtx) checkHandler(rep *Report, key string, vals [][]byte, build func() ([][]byte, [][]byte)) {
	ch := hc.ch.Fork()
	c := ch.C
	seq := hc.next
	hc.next++
	from, to, denom := c.Addr("u2"), c.Addr("u1"), c.Denom("d1")
	// the leaf commits to the address STRINGS: also use the upper-case spelling of the same bech32 addresses
	if seq%2 == 1 {
		to = c.Addr("up:u1")
	}
	if seq%3 == 0 {
		from = c.Addr("up:u2")
	}
	leaf := fmtx.Leaf(1, seq, from, to, denom, 1)
	sroot := fmtx.RootFromProof(leaf, vals)
	bh := c.BlockHash("hx")
	root := fmtx.OutputRoot(0, sroot, bh)
	c.InternRootBytes(root, M{"v": int64(0), "t": "layout", "h": "hx"})
	no, err := ch.F.Host.GetNextOutputIndex(ch.Ctx, 1)
	if err != nil {
		panic(err)
	}
	res := l1.Deliver(ch.F, ch.Ctx, &ophosttypes.MsgProposeOutput{Proposer: c.Addr("p1"), BridgeId: 1, OutputIndex: no, L2BlockNumber: no, OutputRoot: root})
	if !res.OK {
		panic("layout handler: propose failed: " + res.ErrString())
	}
	ch.Exec(M{"type": "AdvanceBlock", "dt": int64(10)})
	proofs, _ := build()
	msgVersion, msgRoot, msgHash := []byte{0}, clone(sroot), clone(bh)
	if seq%2 == 0 {
		// every byte field of the message carved out of ONE buffer, in the order version | storage root | proofs | block hash:
		// each slice's capacity reaches over the fields behind it
		buf := make([]byte, 0, 1+32*(len(vals)+2)+64)
		buf = append(buf, 0)
		buf = append(buf, sroot...)
		for _, v := range vals {
			buf = append(buf, v...)
		}
		buf = append(buf, bh...)
		msgVersion, msgRoot = buf[0:1], buf[1:33]
		proofs = nil
		for i := range vals {
			proofs = append(proofs, buf[33+32*i:33+32*(i+1)])
		}
		msgHash = buf[33+32*len(vals) : 65+32*len(vals)]
	}
	// the proof LIST is itself a slice: hand the handler a window into a longer table (as a prover that keeps the paths of
	// several withdrawals in one table would) and look at the entries behind the window afterwards
	sentinelA, sentinelB := bytes.Repeat([]byte{0x5e}, 32), bytes.Repeat([]byte{0x7a}, 32)
	table := make([][]byte, len(proofs)+2)
	copy(table, proofs)
	table[len(proofs)], table[len(proofs)+1] = sentinelA, sentinelB
	proofs = table[:len(proofs)]
	msg := &ophosttypes.MsgFinalizeTokenWithdrawal{Sender: c.Addr("x"), BridgeId: 1, OutputIndex: no, WithdrawalProofs: proofs, From: from, To: to, Sequence: seq,
		Amount: sdk.NewCoin(denom, math.NewInt(1)), Version: msgVersion, StorageRoot: msgRoot, LastBlockHash: msgHash}
	cc, _ := ch.Ctx.CacheContext()
	_, err = hc.ms.FinalizeTokenWithdrawal(cc, msg)
	if &table[len(proofs)][0] != &sentinelA[0] || &table[len(proofs)+1][0] != &sentinelB[0] || !bytes.Equal(sentinelA, bytes.Repeat([]byte{0x5e}, 32)) || !bytes.Equal(sentinelB, bytes.Repeat([]byte{0x7a}, 32)) {
		rep.add(Mismatch{Kind: "pure", Fn: "MsgFinalizeTokenWithdrawal", Detail: M{"layout": key, "what": "entries of the caller's table behind the proof list were overwritten"}})
	}
	rep.Evaluations++
	rep.ByFn["layout-handler"]++
	if err != nil {
		rep.add(Mismatch{Kind: "layout", Fn: "MsgFinalizeTokenWithdrawal", Detail: M{"layout": key, "what": "a valid claim is rejected for this memory layout of the proof list: " + err.Error()}})
	}
	for i := range proofs {
		if !bytes.Equal(msg.WithdrawalProofs[i], vals[i]) {
			rep.add(Mismatch{Kind: "pure", Fn: "MsgFinalizeTokenWithdrawal", Detail: M{"layout": key, "what": fmt.Sprintf("proof item %d of the caller's message was overwritten", i+1)}})
			break
		}
	}
	if !bytes.Equal(msg.StorageRoot, sroot) || !bytes.Equal(msg.LastBlockHash, bh) {
		rep.add(Mismatch{Kind: "pure", Fn: "MsgFinalizeTokenWithdrawal", Detail: M{"layout": key, "what": "storage root / block hash bytes of the message were modified"}})
	}
	// 3. the root-from-proof the handler effectively computes is the documented fold of EVERY element: proof lists whose
	// documented fold differs from the storage root (one element more, one less, one bit flipped, two elements swapped)
	// must be refused by the handler for the same output
	junk := make([]byte, 32)
	for i := range junk {
		junk[i] = byte(0xa0 + i + int(seq))
	}
	variants := map[string][][]byte{"extended by one element": append(append([][]byte{}, vals...), junk),
		"extended by a copy of the storage root": append(append([][]byte{}, vals...), clone(sroot)),
		"preceded by one element":                append([][]byte{junk}, vals...)}
	if len(vals) > 0 {
		variants["shortened by its last element"] = append([][]byte{}, vals[:len(vals)-1]...)
		fl := append([][]byte{}, vals...)
		fl[len(fl)-1] = clone(fl[len(fl)-1])
		fl[len(fl)-1][31] ^= 1
		variants["last element with one bit flipped"] = fl
	}
	if len(vals) > 1 {
		sw := append([][]byte{}, vals...)
		sw[0], sw[len(sw)-1] = sw[len(sw)-1], sw[0]
		variants["first and last element swapped"] = sw
	}
	for what, pv := range variants {
		if bytes.Equal(fmtx.RootFromProof(leaf, pv), sroot) {
			continue // (a swap of equal elements, a collision) - the documented fold still yields the storage root
		}
		m2 := &ophosttypes.MsgFinalizeTokenWithdrawal{Sender: c.Addr("x"), BridgeId: 1, OutputIndex: no, WithdrawalProofs: pv, From: from, To: to, Sequence: seq,
			Amount: sdk.NewCoin(denom, math.NewInt(1)), Version: []byte{0}, StorageRoot: clone(sroot), LastBlockHash: clone(bh)}
		c2, _ := ch.Ctx.CacheContext()
		_, err2 := hc.ms.FinalizeTokenWithdrawal(c2, m2)
		rep.Evaluations++
		rep.ByFn["handler-root"]++
		if err2 == nil {
			rep.add(Mismatch{Kind: "handler-root", Fn: "MsgFinalizeTokenWithdrawal", Detail: M{"layout": key, "what": "the handler accepts a proof list (" + what + ") whose documented fold differs from the storage root"}})
		}
	}
}
