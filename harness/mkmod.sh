#!/bin/sh
# Regenerates go.mod/go.sum for the out-of-tree harness from /repo's own go.mod (offline).
# REPO may point at a scratch copy of the repository (used when testing mutants).
set -e
REPO="${REPO:-/repo}"
cd "$(dirname "$0")"
{
  echo "module verifharness"
  sed -e '1d' -e "s#=> ./api#=> $REPO/api#" "$REPO/go.mod"
  echo "require github.com/initia-labs/OPinit v0.0.0"
  echo "replace github.com/initia-labs/OPinit => $REPO"
} > go.mod
cp "$REPO/go.sum" go.sum
