// Package fmtx is an independent implementation of the documented OPinit commitment and identifier
// formats. It deliberately imports nothing from the repository under test: it is the Go evaluation of
// the definitions written in spec/Formats.tla (BE64, Str, Cat, SHA3, SHA256, Hex are the only
// primitives), used to build expectations (trees, proofs, roots, denoms, escrow addresses).
package fmtx

import (
	"bytes"
	"crypto/sha256"
	"encoding/binary"
	"encoding/hex"

	"golang.org/x/crypto/sha3"
)

func BE64(x uint64) []byte { b := make([]byte, 8); binary.BigEndian.PutUint64(b, x); return b }
func Cat(parts ...[]byte) []byte {
	n := 0
	for _, p := range parts {
		n += len(p)
	}
	out := make([]byte, 0, n)
	for _, p := range parts {
		out = append(out, p...)
	}
	return out
}
func SHA3(b []byte) []byte   { h := sha3.Sum256(b); return h[:] }
func SHA256(b []byte) []byte { h := sha256.Sum256(b); return h[:] }

// Leaf == SHA3(SHA3(BE64(b) ‖ BE64(seq) ‖ SHA3(from) ‖ SHA3(to) ‖ SHA3(denom) ‖ BE64(amt)))
func Leaf(bridge, seq uint64, from, to, denom string, amt uint64) []byte {
	return SHA3(SHA3(Cat(BE64(bridge), BE64(seq), SHA3([]byte(from)), SHA3([]byte(to)), SHA3([]byte(denom)), BE64(amt))))
}

// Node == SHA3(min(a,b) ‖ max(a,b))   (order independent)
func Node(a, b []byte) []byte {
	if bytes.Compare(a, b) <= 0 {
		return SHA3(Cat(a, b))
	}
	return SHA3(Cat(b, a))
}

func RootFromProof(leaf []byte, proof [][]byte) []byte {
	cur := append([]byte{}, leaf...)
	for _, p := range proof {
		cur = Node(cur, p)
	}
	return cur
}

// OutputRoot == SHA3(version ‖ storageRoot ‖ blockHash)
func OutputRoot(version byte, storageRoot, blockHash []byte) []byte {
	return SHA3(Cat([]byte{version}, storageRoot[:32], blockHash[:32]))
}

// L2Denom == "l2/" ‖ hex(SHA3(BE64(id) ‖ denom))
func L2Denom(bridge uint64, l1Denom string) string {
	return "l2/" + hex.EncodeToString(SHA3(Cat(BE64(bridge), []byte(l1Denom))))
}

// BridgeAddr == SHA256(SHA256("module") ‖ "ophost" ‖ 0x00 ‖ BE64(id))   (ADR-028 module-derived address)
func BridgeAddr(bridge uint64) []byte {
	th := SHA256([]byte("module"))
	return SHA256(Cat(th, []byte("ophost"), []byte{0}, BE64(bridge)))
}

// Tree rule: leaves in the given order; each level pairs neighbours with Node; an odd last node is
// paired with itself; a single leaf is its own root.
func levels(leaves [][]byte) [][][]byte {
	lv := [][][]byte{leaves}
	cur := leaves
	for len(cur) > 1 {
		var nxt [][]byte
		for i := 0; i < len(cur); i += 2 {
			j := i + 1
			if j == len(cur) {
				j = i
			}
			nxt = append(nxt, Node(cur[i], cur[j]))
		}
		lv = append(lv, nxt)
		cur = nxt
	}
	return lv
}

func TreeRoot(leaves [][]byte) []byte {
	if len(leaves) == 0 {
		return make([]byte, 32)
	}
	lv := levels(leaves)
	return lv[len(lv)-1][0]
}

func ProofFor(leaves [][]byte, idx int) [][]byte {
	lv := levels(leaves)
	var proof [][]byte
	for l := 0; l < len(lv)-1; l++ {
		sib := idx ^ 1
		if sib >= len(lv[l]) {
			sib = idx
		}
		proof = append(proof, append([]byte{}, lv[l][sib]...))
		idx /= 2
	}
	return proof
}

// InnerNodes returns the nodes of level 1 (parents of leaves), used to offer an inner node as a leaf.
func Levels(leaves [][]byte) [][][]byte { return levels(leaves) }
