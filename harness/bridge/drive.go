package bridge

import (
	"encoding/json"
	"fmt"
	"io"
	"math/big"
	"math/rand"

	"verifharness/absx"
	"verifharness/l1"
	"verifharness/l2"
)

func pick[T any](r *rand.Rand, xs []T) T { return xs[r.Intn(len(xs))] }

var bUsers = []string{"u1", "u2", "u3"}

func driveMeta() M {
	return M{
		"l1": M{"bkeys": []any{"1", "2"}, "accts": []any{"gov", "p1", "p2", "c1", "u1", "u2", "u3", "x", "esc1", "esc2", "pool"}, "denoms": []any{"d1", "d2", "d3"},
			"funded": []any{"u1", "u2", "u3"}, "amt0": int64(400), "chans": []any{"ch1"}, "devs": []any{}, "maxB": int64(2), "feeDenom": "d1"},
		"l2": M{"accts": []any{"e1", "e2", "adm", "u1", "u2", "u3", "x", "opchild", "feecollector"}, "denoms": []any{"l2/1/d1", "l2/1/d2", "l2/1/d3"}, "funded": M{}, "premeta": []any{"l2/1/d3"}, // the L2 genesis ships bank metadata for one bridged token
			"params": M{"admin": "adm", "execs": []any{"e1", "e2"}, "maxVals": int64(3), "histEntries": int64(1), "hookGas": "ample", "fw": []any{}}, "devs": []any{}},
	}
}

// DriveMeta is the configuration of Drive in the form of the walker's META line (used for replays).
func DriveMeta() M { return driveMeta() }

func (p *Pair) treeOf(run, n int) M {
	leaves := make([]any, n)
	for i := 0; i < n; i++ {
		w := absx.Map(p.Wds[i])
		leaves[i] = M{"b": int64(1), "seq": w["seq"], "from": w["from"], "to": w["to"], "denom": w["base"], "amt": w["amt"]}
	}
	return M{"id": fmt.Sprintf("W%d", n), "leaves": leaves}
}

// Drive runs seeded random two-chain histories (engine E3; validated by spec/Trace_Bridge.tla).
func Drive(out io.Writer, seed int64, runs, length int) (map[string]int, error) {
	enc := json.NewEncoder(out)
	stats := map[string]int{}
	scales := []*big.Int{big.NewInt(1), big.NewInt(1_000_000), new(big.Int).Lsh(big.NewInt(1), 55)}
	for run := 0; run < runs; run++ {
		r := rand.New(rand.NewSource(seed*1000003 + int64(run)))
		conc := l1.NewConc(seed*31+int64(run), scales[run%len(scales)])
		p := New(conc, driveMeta())
		if err := enc.Encode(M{"reset": true, "run": int64(run), "scale": conc.U.String(), "seed": conc.Seed, "state": p.Project()}); err != nil {
			return nil, err
		}
		exec1 := func(e M) error {
			ok, resp, errs := p.Exec(e)
			ty := absx.Str(e["chain"]) + "." + absx.Str(absx.Map(e["e"])["type"])
			stats[ty]++
			if ok {
				stats["ok:"+ty]++
			}
			if resp == nil {
				resp = M{"none": true}
			}
			return enc.Encode(M{"run": int64(run), "e": e, "ok": ok, "resp": resp, "err": errs, "state": p.Project()})
		}
		if err := exec1(M{"chain": "L1", "e": M{"type": "CreateBridge", "signer": "x", "cfg": M{"proposer": "p1", "challenger": "c1", "period": int64(2 + r.Intn(6)), "interval": int64(2), "startH": int64(1),
			"oracle": false, "meta": M{"cls": "none", "chs": []any{}}, "bsub": "s1", "bchain": "INITIA"}}}); err != nil {
			return nil, err
		}
		// a second bridge on the same L1 (its L2 is not part of the run): deposits, outputs and claims on it are traffic that must
		// not disturb bridge 1, in particular across a genesis round trip of the L1
		if err := exec1(M{"chain": "L1", "e": M{"type": "CreateBridge", "signer": "x", "cfg": M{"proposer": "p2", "challenger": "c1", "period": int64(2), "interval": int64(2), "startH": int64(1),
			"oracle": false, "meta": M{"cls": "none", "chs": []any{}}, "bsub": "s1", "bchain": "INITIA"}}}); err != nil {
			return nil, err
		}
		tree2 := func(n int) M {
			leaves := make([]any, n)
			for i := 0; i < n; i++ {
				leaves[i] = M{"b": int64(2), "seq": int64(i + 1), "from": "u1", "to": pick(r, []string{"u2"}), "denom": "d1", "amt": int64(1)}
			}
			return M{"id": fmt.Sprintf("X%d-%d", run, n), "leaves": leaves}
		}
		trees2 := map[int64]int{} // output index of bridge 2 -> number of leaves
		for i := 2; i < length; i++ {
			st1 := p.L1.Project()
			nextOut := absx.Int(absx.Map(st1["nextOut"])["1"])
			proposer := absx.Str(absx.Map(absx.Map(st1["cfg"])["1"])["proposer"])
			var e M
			switch w := r.Intn(112); {
			case w >= 109: // genesis round trip of either chain
				e = M{"chain": pick(r, []string{"L1", "L1", "L2"}), "e": M{"type": "ExportImport"}}
			case w >= 100: // traffic on the second bridge
				next2 := absx.Int(absx.Map(st1["nextOut"])["2"])
				switch r.Intn(3) {
				case 0:
					e = M{"chain": "L1", "e": M{"type": "InitiateTokenDeposit", "signer": pick(r, bUsers), "b": int64(2), "to": "u1", "denom": "d1", "amt": int64(1 + r.Intn(5)), "data": "p0"}}
				case 1:
					n := 1 + r.Intn(4)
					t := tree2(n)
					trees2[next2] = n
					e = M{"chain": "L1", "e": M{"type": "ProposeOutput", "signer": "p2", "b": int64(2), "idx": next2, "l2bn": next2,
						"root": M{"v": int64(0), "t": t["id"], "h": "h1"}, "tree": t, "bad": "none"}}
				default:
					if len(trees2) == 0 {
						continue
					}
					var out int64
					for k := range trees2 {
						if k > out {
							out = k
						}
					}
					out = 1 + int64(r.Intn(int(out)))
					n, ok := trees2[out]
					if !ok {
						continue
					}
					t := tree2(n)
					i := 1 + r.Intn(n)
					ce := M{"type": "FinalizeTokenWithdrawal", "signer": "x", "b": int64(2), "out": out,
						"w": M{"seq": int64(i), "from": "u1", "to": "u2", "denom": "d1", "amt": int64(1)}, "v": int64(0), "tree": t, "pos": int64(i), "h": "h1", "mut": "none", "bad": "none"}
					cb := p.L1.BuildClaim(ce)
					ce["root"] = cb.RootName
					ce["proofOK"] = cb.ProofOK
					e = M{"chain": "L1", "e": ce}
				}
			case w < 22:
				e = M{"chain": "L1", "e": M{"type": "InitiateTokenDeposit", "signer": pick(r, bUsers), "b": int64(1), "to": pick(r, []string{"u1", "u2", "u3", "u1", "u2", l1.BadNotBech32, l1.BadSpace, "opchild"}),
					"denom": pick(r, []string{"d1", "d1", "d2", "d3"}), "amt": int64(r.Intn(40)), "data": pick(r, []string{"p0", "p0", "p0", "hw", "hwf", "hu"})}}
			case w < 42 && len(p.Deps) > 0:
				q := 1 + r.Intn(len(p.Deps))
				if r.Intn(3) != 0 { // mostly the next expected one
					if n := int(absx.Int(p.L2.Project()["seqL1"])); n <= len(p.Deps) {
						q = n
					}
				}
				d := absx.Map(p.Deps[q-1])
				e = M{"chain": "L2", "e": M{"type": "FinalizeTokenDeposit", "signer": pick(r, []string{"e1", "e1", "e2", "x"}), "seq": d["seq"], "from": d["from"], "to": d["to"], "denom": d["l2denom"],
					"amt": d["amt"], "base": d["l1denom"], "height": int64(5), "hook": HookOf(d), "fault": "none"}}
			case w < 56:
				d := pick(r, []string{"d1", "d1", "d2", "d3"})
				e = M{"chain": "L2", "e": M{"type": "InitiateTokenWithdrawal", "signer": pick(r, bUsers), "to": pick(r, []string{"u1", "u2", "u3", "u1", "up:u2", l1.BadNotBech32}), "denom": "l2/1/" + d, "amt": int64(r.Intn(15))}}
			case w < 62:
				d := pick(r, []string{"d1", "d2"})
				e = M{"chain": "L2", "e": M{"type": "BankSend", "signer": pick(r, bUsers), "to": pick(r, bUsers), "denom": "l2/1/" + d, "amt": int64(1 + r.Intn(5))}}
			case w < 72 && len(p.Wds) > 0:
				n := len(p.Wds)
				e = M{"chain": "L1", "e": M{"type": "ProposeOutput", "signer": pick(r, []string{proposer, proposer, proposer, "x"}), "b": int64(1), "idx": nextOut, "l2bn": nextOut,
					"root": M{"v": int64(0), "t": fmt.Sprintf("W%d", n), "h": "h1"}, "tree": p.treeOf(run, n), "bad": "none"}}
			case w < 75:
				e = M{"chain": "L1", "e": M{"type": "DeleteOutput", "signer": pick(r, []string{"c1", "c1", "x"}), "b": int64(1), "idx": int64(1 + r.Intn(int(nextOut)+1))}}
			case w < 85:
				e = M{"chain": "L1", "e": M{"type": "AdvanceBlock", "dt": int64(pick(r, []int{0, 1, 2, 3, 6}))}}
			case w < 98 && len(p.Trees) > 0 && len(p.Wds) > 0:
				var outs []string
				for k := range p.Trees {
					outs = append(outs, k)
				}
				ok := pick(r, outs)
				var out int64
				fmt.Sscan(ok, &out)
				n := int(absx.Int(p.Trees[ok]))
				if n == 0 {
					continue
				}
				i := 1 + r.Intn(n)
				wd := absx.Map(p.Wds[i-1])
				ce := M{"type": "FinalizeTokenWithdrawal", "signer": pick(r, []string{"x", "u1"}), "b": int64(1), "out": out,
					"w": M{"seq": wd["seq"], "from": wd["from"], "to": wd["to"], "denom": wd["base"], "amt": wd["amt"]}, "v": int64(0), "tree": p.treeOf(run, n), "pos": int64(i), "h": "h1", "mut": "none", "bad": "none"}
				cb := p.L1.BuildClaim(ce)
				ce["root"] = cb.RootName
				ce["proofOK"] = cb.ProofOK
				e = M{"chain": "L1", "e": ce}
			case w < 99:
				e = M{"chain": "L1", "e": M{"type": "UpdateProposer", "signer": pick(r, []string{proposer, "gov"}), "b": int64(1), "new": pick(r, []string{"p1", "p2"})}}
			default: // users trade among themselves on L1 (plain transfers INTO an escrow are outside C08's equation, see C01)
				e = M{"chain": "L1", "e": M{"type": "BankSend", "signer": pick(r, bUsers), "to": pick(r, bUsers), "denom": "d1", "amt": int64(1 + r.Intn(3))}}
			}
			if e == nil {
				e = M{"chain": "L1", "e": M{"type": "AdvanceBlock", "dt": int64(1)}}
			}
			if err := exec1(e); err != nil {
				return nil, err
			}
		}
		// drain with the canonical schedule: relay everything pending in order, commit to every recorded withdrawal,
		// let the challenge window pass, claim everything once.  The last line asks the trace spec to check Drained.
		for guard := 0; guard < 500; guard++ {
			n := int(absx.Int(p.L2.Project()["seqL1"]))
			if n > len(p.Deps) {
				break
			}
			d := absx.Map(p.Deps[n-1])
			if err := exec1(M{"chain": "L2", "e": M{"type": "FinalizeTokenDeposit", "signer": "e1", "seq": d["seq"], "from": d["from"], "to": d["to"], "denom": d["l2denom"],
				"amt": d["amt"], "base": d["l1denom"], "height": int64(5), "hook": HookOf(d), "fault": "none"}}); err != nil {
				return nil, err
			}
		}
		st1 := p.L1.Project()
		nextOut := absx.Int(absx.Map(st1["nextOut"])["1"])
		proposer := absx.Str(absx.Map(absx.Map(st1["cfg"])["1"])["proposer"])
		period := absx.Int(absx.Map(absx.Map(st1["cfg"])["1"])["period"])
		if n := len(p.Wds); n > 0 {
			if err := exec1(M{"chain": "L1", "e": M{"type": "ProposeOutput", "signer": proposer, "b": int64(1), "idx": nextOut, "l2bn": nextOut,
				"root": M{"v": int64(0), "t": fmt.Sprintf("W%d", n), "h": "h1"}, "tree": p.treeOf(run, n), "bad": "none"}}); err != nil {
				return nil, err
			}
			if err := exec1(M{"chain": "L1", "e": M{"type": "AdvanceBlock", "dt": period + 2}}); err != nil {
				return nil, err
			}
			for i := 1; i <= n; i++ {
				wd := absx.Map(p.Wds[i-1])
				ce := M{"type": "FinalizeTokenWithdrawal", "signer": "x", "b": int64(1), "out": nextOut,
					"w": M{"seq": wd["seq"], "from": wd["from"], "to": wd["to"], "denom": wd["base"], "amt": wd["amt"]}, "v": int64(0), "tree": p.treeOf(run, n), "pos": int64(i), "h": "h1", "mut": "none", "bad": "none"}
				cb := p.L1.BuildClaim(ce)
				ce["root"] = cb.RootName
				ce["proofOK"] = cb.ProofOK
				if err := exec1(M{"chain": "L1", "e": ce}); err != nil {
					return nil, err
				}
			}
		}
		if err := exec1(M{"chain": "L1", "e": M{"type": "AdvanceBlock", "dt": int64(0), "expectDrained": true}}); err != nil {
			return nil, err
		}
	}
	_ = l2.ChainID
	return stats, nil
}
