// Package bridge composes the real L1 and L2 chains for Bridge.tla: events are tagged with the chain they
// belong to; the bookkeeping an off-chain executor / proposer keeps (deposit events seen on L1, withdrawal
// events seen on L2, which withdrawals each proposed tree commits to) is rebuilt from the events the real
// chains emit.
package bridge

import (
	"strconv"

	"verifharness/absx"
	"verifharness/l1"
	"verifharness/l2"
)

type M = absx.M

type Pair struct {
	L1    *l1.Chain
	L2    *l2.Chain
	Deps  []any
	Wds   []any
	Trees M
}

func New(c *l1.Conc, meta M) *Pair {
	cfg1 := l1.DefaultRunCfg()
	l1.ApplyMeta(&cfg1, c, absx.Map(meta["l1"]))
	m2 := absx.Map(meta["l2"])
	strs := func(v any) []string {
		var out []string
		for _, x := range absx.List(v) {
			out = append(out, absx.Str(x))
		}
		return out
	}
	cfg2 := l2.RunCfg{Accts: strs(m2["accts"]), Denoms: strs(m2["denoms"]), Funded: absx.Map(m2["funded"]), Params: absx.Map(m2["params"]), Devs: strs(m2["devs"])}
	if pm, ok := m2["premeta"]; ok {
		cfg2.PreMeta = strs(pm)
	}
	return &Pair{L1: l1.NewChain(c, cfg1), L2: l2.NewChain(c, cfg2), Trees: M{}}
}

func (p *Pair) Fork() *Pair {
	t := M{}
	for k, v := range p.Trees {
		t[k] = v
	}
	return &Pair{L1: p.L1.Fork(), L2: p.L2.Fork(), Deps: append([]any{}, p.Deps...), Wds: append([]any{}, p.Wds...), Trees: t}
}

func (p *Pair) Exec(ev M) (bool, M, string) {
	e := absx.Map(ev["e"])
	ty := absx.Str(e["type"])
	if absx.Str(ev["chain"]) == "L1" {
		o := p.L1.Exec(e)
		if !o.OK {
			return false, nil, o.Err
		}
		switch ty {
		case "InitiateTokenDeposit":
			if absx.Int(e["b"]) == 1 {
				v := absx.Map(o.Resp["ev"])
				p.Deps = append(p.Deps, M{"seq": v["seq"], "from": v["from"], "to": v["to"], "l1denom": v["l1denom"], "l2denom": v["l2denom"], "amt": v["amt"], "data": v["data"]})
			}
		case "ProposeOutput":
			if absx.Int(e["b"]) == 1 {
				p.Trees[strconv.FormatInt(absx.Int(o.Resp["idx"]), 10)] = int64(len(p.Wds))
			}
		case "DeleteOutput":
			if absx.Int(e["b"]) == 1 {
				idx := absx.Int(o.Resp["idx"])
				for k := range p.Trees {
					if n, _ := strconv.ParseInt(k, 10, 64); n >= idx {
						delete(p.Trees, k)
					}
				}
			}
		}
		return true, o.Resp, ""
	}
	o := p.L2.Exec(e)
	if !o.OK {
		return false, nil, o.Err
	}
	switch ty {
	case "InitiateTokenWithdrawal":
		v := absx.Map(o.Resp["ev"])
		p.Wds = append(p.Wds, M{"seq": v["seq"], "from": v["from"], "to": v["to"], "denom": v["denom"], "base": v["base"], "amt": v["amt"]})
	case "FinalizeTokenDeposit":
		if absx.Str(o.Resp["result"]) == "SUCCESS" {
			for _, h := range absx.List(o.Resp["hookWds"]) {
				wd := absx.Map(h)
				p.Wds = append(p.Wds, M{"seq": wd["seq"], "from": wd["from"], "to": wd["to"], "denom": wd["denom"], "base": wd["base"], "amt": wd["amt"]})
			}
			if wd := absx.Map(o.Resp["wd"]); absx.Bool(wd["some"]) {
				p.Wds = append(p.Wds, M{"seq": wd["seq"], "from": wd["from"], "to": wd["to"], "denom": wd["denom"], "base": wd["base"], "amt": wd["amt"]})
			}
		}
	}
	return true, o.Resp, ""
}

// HookOf is Bridge!HookOf: the L2 transaction a deposit's payload name stands for.
func HookOf(d M) M {
	data, to := absx.Str(d["data"]), absx.Str(d["to"])
	if data == "p0" || data == "" || (to != "u1" && to != "u2" && to != "u3") {
		return M{"kind": "none", "signer": "", "msgs": []any{}}
	}
	if data == "hu" {
		return M{"kind": "undecodable", "signer": "", "msgs": []any{}}
	}
	msgs := []any{M{"kind": "withdraw", "to": d["from"], "denom": d["l2denom"], "amt": d["amt"]}}
	if data == "hwf" {
		msgs = append(msgs, M{"kind": "send", "to": "panic", "denom": d["l2denom"], "amt": int64(1)})
	}
	return M{"kind": "msgs", "signer": to, "msgs": msgs}
}

func (p *Pair) Project() M {
	deps, wds := p.Deps, p.Wds
	if deps == nil {
		deps = []any{}
	}
	if wds == nil {
		wds = []any{}
	}
	return M{"l1": p.L1.Project(), "l2": p.L2.Project(), "deps": deps, "wds": wds, "trees": p.Trees}
}

func (p *Pair) Digest() string { return p.L1.Digest() + "\n--\n" + p.L2.Digest() }
func (p *Pair) Raw() string    { return p.L1.F.LastRaw + "|" + p.L2.F.LastRaw }
