// vh: verification harness driver.
package main

import (
	"encoding/json"
	"flag"
	"fmt"
	"math/big"
	"os"

	"verifharness/absx"
	"verifharness/l1"
	"verifharness/walk"
)

type l1Impl struct{ ch *l1.Chain }

func (i l1Impl) Fork() walk.Impl { return l1Impl{i.ch.Fork()} }
func (i l1Impl) Exec(e absx.M) (bool, absx.M, string) {
	o := i.ch.Exec(e)
	return o.OK, o.Resp, o.Err
}
func (i l1Impl) Project() absx.M { return i.ch.Project() }

func parseScale(s string) *big.Int {
	v, ok := new(big.Int).SetString(s, 10)
	if !ok || v.Sign() <= 0 {
		fmt.Fprintln(os.Stderr, "bad scale", s)
		os.Exit(2)
	}
	return v
}

func writeJSON(path string, v any) {
	bz, err := json.MarshalIndent(v, "", " ")
	if err != nil {
		panic(err)
	}
	if path == "" || path == "-" {
		fmt.Println(string(bz))
		return
	}
	if err := os.WriteFile(path, bz, 0o644); err != nil {
		panic(err)
	}
}

func main() {
	if len(os.Args) < 2 {
		fmt.Fprintln(os.Stderr, "usage: vh <l1-walk|...> [flags]")
		os.Exit(2)
	}
	cmd := os.Args[1]
	fs := flag.NewFlagSet(cmd, flag.ExitOnError)
	edges := fs.String("edges", "", "TLC output with EDGE lines")
	seed := fs.Int64("seed", 1, "concretisation seed")
	scale := fs.String("scale", "1", "amount of one abstract unit")
	out := fs.String("out", "-", "report path")
	keep := fs.Int("keep", 50, "mismatches to keep in the report")
	_ = fs.Parse(os.Args[2:])

	defer func() {
		if r := recover(); r != nil {
			if me, ok := r.(l1.ModelError); ok {
				fmt.Fprintln(os.Stderr, "MODEL-ERROR:", me.Msg)
				os.Exit(2)
			}
			panic(r)
		}
	}()

	switch cmd {
	case "l1-walk":
		g, err := walk.Load(*edges)
		if err != nil {
			fmt.Fprintln(os.Stderr, err)
			os.Exit(2)
		}
		conc := l1.NewConc(*seed, parseScale(*scale))
		cfg := l1.DefaultRunCfg()
		if g.Meta != nil {
			l1.ApplyMeta(&cfg, conc, g.Meta)
		}
		ch := l1.NewChain(conc, cfg)
		rep := walk.Walk(g, l1Impl{ch}, *keep)
		writeJSON(*out, rep)
	default:
		fmt.Fprintln(os.Stderr, "unknown command", cmd)
		os.Exit(2)
	}
}
