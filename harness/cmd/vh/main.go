// vh: verification harness driver.
package main

import (
	"encoding/json"
	"flag"
	"fmt"
	"math/big"
	"os"
	"sort"
	"time"

	"verifharness/absx"
	"verifharness/antecheck"
	"verifharness/bridge"
	"verifharness/det"
	"verifharness/fmtcheck"
	"verifharness/l1"
	"verifharness/l2"
	"verifharness/srcscan"
	"verifharness/walk"
)

type l1Impl struct{ ch *l1.Chain }

func (i l1Impl) Fork() walk.Impl     { return l1Impl{i.ch.Fork()} }
func (i l1Impl) SpecFork() walk.Impl { return l1Impl{i.ch.Fork()} }
func (i l1Impl) Exec(e absx.M) (bool, absx.M, string) {
	o := i.ch.Exec(e)
	return o.OK, o.Resp, o.Err
}
func (i l1Impl) Project() absx.M { return i.ch.Project() }

func (i l1Impl) Digest() string     { return i.ch.Digest() }
func (i l1Impl) Raw() string        { return i.ch.F.LastRaw }
func (i l2Impl) Digest() string     { return i.ch.Digest() }
func (i l2Impl) Raw() string        { return i.ch.F.LastRaw }
func (i valImpl) Digest() string    { return i.ch.Digest() }
func (i valImpl) Raw() string       { return i.ch.F.LastRaw }
func (i oracleImpl) Digest() string { return i.ch.Digest() }
func (i oracleImpl) Raw() string    { return i.ch.F.LastRaw }

type bridgeImpl struct{ p *bridge.Pair }

func (i bridgeImpl) Fork() walk.Impl                      { return bridgeImpl{i.p.Fork()} }
func (i bridgeImpl) Exec(e absx.M) (bool, absx.M, string) { return i.p.Exec(e) }
func (i bridgeImpl) Project() absx.M                      { return i.p.Project() }
func (i bridgeImpl) Digest() string                       { return i.p.Digest() }
func (i bridgeImpl) Raw() string                          { return i.p.Raw() }

type l2Impl struct{ ch *l2.Chain }

func (i l2Impl) Fork() walk.Impl     { return l2Impl{i.ch.Fork()} }
func (i l2Impl) SpecFork() walk.Impl { return l2Impl{i.ch.SpecFork()} }
func (i l2Impl) Exec(e absx.M) (bool, absx.M, string) {
	o := i.ch.Exec(e)
	return o.OK, o.Resp, o.Err
}
func (i l2Impl) Project() absx.M { return i.ch.Project() }

type valImpl struct{ ch *l2.Chain }

func (i valImpl) Fork() walk.Impl     { return valImpl{i.ch.Fork()} }
func (i valImpl) SpecFork() walk.Impl { return valImpl{i.ch.SpecFork()} }
func (i valImpl) Exec(e absx.M) (bool, absx.M, string) {
	o := i.ch.Exec(e)
	return o.OK, o.Resp, o.Err
}
func (i valImpl) Project() absx.M { return i.ch.ProjectVal() }

func newValImpl(seed int64, scale string, meta absx.M) walk.Impl {
	if absx.Bool(meta["driver"]) {
		meta = l2.DriveValMeta()
	}
	conc := l1.NewConc(seed, parseScale(scale))
	ch := l2.NewChain(conc, l2Cfg(meta))
	var ops, keys []string
	for _, o := range absx.List(meta["ops"]) {
		ops = append(ops, absx.Str(o))
	}
	for _, k := range absx.List(meta["keys"]) {
		keys = append(keys, absx.Str(k))
	}
	sort.Strings(keys)
	ch.InitVal(ops, keys)
	return valImpl{ch}
}

type oracleImpl struct{ ch *l2.Chain }

func (i oracleImpl) Fork() walk.Impl     { return oracleImpl{i.ch.Fork()} }
func (i oracleImpl) SpecFork() walk.Impl { return oracleImpl{i.ch.SpecFork()} }
func (i oracleImpl) Exec(e absx.M) (bool, absx.M, string) {
	o := i.ch.Exec(e)
	return o.OK, o.Resp, o.Err
}
func (i oracleImpl) Project() absx.M { return i.ch.ProjectOracle() }

func newOracleImpl(seed int64, scale string, meta absx.M) walk.Impl {
	conc := l1.NewConc(seed, parseScale(scale))
	ch := l2.NewChain(conc, l2Cfg(meta))
	cfg := l2.OracleCfg{Client: absx.Str(meta["client"]), Chain: absx.Str(meta["chain"]), Enabled: absx.Bool(meta["enabled"])}
	for _, p := range absx.List(meta["pairs"]) {
		cfg.Pairs = append(cfg.Pairs, absx.Str(p))
	}
	for _, v := range absx.List(meta["vals"]) {
		cfg.Vals = append(cfg.Vals, absx.Str(v))
	}
	sort.Strings(cfg.Pairs)
	sort.Strings(cfg.Vals)
	ch.InitOracle(cfg)
	return oracleImpl{ch}
}

func l2Cfg(meta absx.M) l2.RunCfg {
	if absx.Bool(meta["driver"]) {
		return l2.DriveCfg()
	}
	strs := func(v any) []string {
		var out []string
		for _, x := range absx.List(v) {
			out = append(out, absx.Str(x))
		}
		sort.Strings(out)
		return out
	}
	cfg := l2.RunCfg{Accts: strs(meta["accts"]), Denoms: strs(meta["denoms"]), Funded: absx.Map(meta["funded"]), Params: absx.Map(meta["params"]), Devs: strs(meta["devs"])}
	if pm, ok := meta["premeta"]; ok {
		cfg.PreMeta = strs(pm)
	}
	return cfg
}

func parseScale(s string) *big.Int {
	v, ok := new(big.Int).SetString(s, 10)
	if !ok || v.Sign() <= 0 {
		fmt.Fprintln(os.Stderr, "bad scale", s)
		os.Exit(2)
	}
	return v
}

func writeJSON(path string, v any) {
	bz, err := json.MarshalIndent(v, "", " ")
	if err != nil {
		panic(err)
	}
	if path == "" || path == "-" {
		fmt.Println(string(bz))
		return
	}
	if err := os.WriteFile(path, bz, 0o644); err != nil {
		panic(err)
	}
}

func main() {
	if len(os.Args) < 2 {
		fmt.Fprintln(os.Stderr, "usage: vh <l1-walk|...> [flags]")
		os.Exit(2)
	}
	cmd := os.Args[1]
	fs := flag.NewFlagSet(cmd, flag.ExitOnError)
	edges := fs.String("edges", "", "TLC output with EDGE lines")
	seed := fs.Int64("seed", 1, "concretisation seed")
	scale := fs.String("scale", "1", "amount of one abstract unit")
	out := fs.String("out", "-", "report path")
	keep := fs.Int("keep", 50, "mismatches to keep in the report")
	file := fs.String("file", "", "replay file")
	kind := fs.String("kind", "l1", "fixture kind for det-run: l1 | l2 | val | oracle")
	paths := fs.Int("paths", 20, "number of random paths (det-run)")
	maxLen := fs.Int("len", 25, "maximum path length (det-run)")
	replicas := fs.Int("replicas", 4, "independent instances per path (det-run)")
	tickscale := fs.Int64("tickscale", 1, "one abstract tick = 500 ms * tickscale (l1 commands)")
	layouts := fs.String("layouts", "", "TLC output with LAYOUT lines (fmt-check)")
	vectors := fs.String("vectors", "", "pinned vectors file (fmt-check)")
	rounds := fs.Int("rounds", 50, "seeded fills per case (fmt-check)")
	writeVectors := fs.Bool("write-vectors", false, "regenerate the pinned vectors file")
	_ = fs.Parse(os.Args[2:])
	l1.TickMs = 500 * *tickscale

	defer func() {
		if r := recover(); r != nil {
			if me, ok := r.(l1.ModelError); ok {
				fmt.Fprintln(os.Stderr, "MODEL-ERROR:", me.Msg)
				os.Exit(2)
			}
			panic(r)
		}
	}()

	switch cmd {
	case "l1-walk":
		t0 := time.Now()
		g, err := walk.Load(*edges)
		fmt.Fprintf(os.Stderr, "loaded %d states %d edges in %v\n", len(g.States), g.NEdges, time.Since(t0))
		if err != nil {
			fmt.Fprintln(os.Stderr, err)
			os.Exit(2)
		}
		t1 := time.Now()
		rep := walk.Walk(g, func() walk.Impl {
			conc := l1.NewConc(*seed, parseScale(*scale))
			cfg := l1.DefaultRunCfg()
			if g.Meta != nil {
				l1.ApplyMeta(&cfg, conc, g.Meta)
			}
			return l1Impl{l1.NewChain(conc, cfg)}
		}, *keep)
		fmt.Fprintf(os.Stderr, "walked in %v\n", time.Since(t1))
		writeJSON(*out, rep)
	case "l2-walk":
		g, err := walk.Load(*edges)
		if err != nil {
			fmt.Fprintln(os.Stderr, err)
			os.Exit(2)
		}
		rep := walk.Walk(g, func() walk.Impl {
			conc := l1.NewConc(*seed, parseScale(*scale))
			return l2Impl{l2.NewChain(conc, l2Cfg(g.Meta))}
		}, *keep)
		writeJSON(*out, rep)
	case "ante-check":
		rep, err := antecheck.Run(*edges, *seed)
		if err != nil {
			fmt.Fprintln(os.Stderr, err)
			os.Exit(2)
		}
		writeJSON(*out, rep)
	case "fmt-check":
		rep, err := fmtcheck.Run(*edges, *layouts, *vectors, *seed, *rounds, *writeVectors)
		if err != nil {
			fmt.Fprintln(os.Stderr, err)
			os.Exit(2)
		}
		writeJSON(*out, rep)
	case "val-walk":
		g, err := walk.Load(*edges)
		if err != nil {
			fmt.Fprintln(os.Stderr, err)
			os.Exit(2)
		}
		rep := walk.Walk(g, func() walk.Impl { return newValImpl(*seed, *scale, g.Meta) }, *keep)
		writeJSON(*out, rep)
	case "l1-drive":
		fh, err := os.Create(*out)
		if err != nil {
			fmt.Fprintln(os.Stderr, err)
			os.Exit(2)
		}
		st, err := l1.Drive(fh, *seed, *paths, *maxLen)
		fh.Close()
		if err != nil {
			fmt.Fprintln(os.Stderr, err)
			os.Exit(2)
		}
		bz, _ := json.Marshal(st)
		fmt.Println(string(bz))
	case "bridge-drive":
		fh, err := os.Create(*out)
		if err != nil {
			fmt.Fprintln(os.Stderr, err)
			os.Exit(2)
		}
		st, err := bridge.Drive(fh, *seed, *paths, *maxLen)
		fh.Close()
		if err != nil {
			fmt.Fprintln(os.Stderr, err)
			os.Exit(2)
		}
		bz, _ := json.Marshal(st)
		fmt.Println(string(bz))
	case "val-drive":
		fh, err := os.Create(*out)
		if err != nil {
			fmt.Fprintln(os.Stderr, err)
			os.Exit(2)
		}
		st, err := l2.DriveVal(fh, *seed, *paths, *maxLen)
		fh.Close()
		if err != nil {
			fmt.Fprintln(os.Stderr, err)
			os.Exit(2)
		}
		bz, _ := json.Marshal(st)
		fmt.Println(string(bz))
	case "src-scan":
		fs, err := srcscan.Scan(*file)
		if err != nil {
			fmt.Fprintln(os.Stderr, err)
			os.Exit(2)
		}
		if fs == nil {
			fs = []srcscan.Finding{}
		}
		bz, _ := json.Marshal(fs)
		fmt.Println(string(bz))
	case "oracle-drive":
		fh, err := os.Create(*out)
		if err != nil {
			fmt.Fprintln(os.Stderr, err)
			os.Exit(2)
		}
		st, err := l2.DriveOracle(fh, *seed, *paths, *maxLen)
		fh.Close()
		if err != nil {
			fmt.Fprintln(os.Stderr, err)
			os.Exit(2)
		}
		bz, _ := json.Marshal(st)
		fmt.Println(string(bz))
	case "l2-drive":
		fh, err := os.Create(*out)
		if err != nil {
			fmt.Fprintln(os.Stderr, err)
			os.Exit(2)
		}
		st, err := l2.Drive(fh, *seed, *paths, *maxLen)
		fh.Close()
		if err != nil {
			fmt.Fprintln(os.Stderr, err)
			os.Exit(2)
		}
		bz, _ := json.Marshal(st)
		fmt.Println(string(bz))
	case "det-run":
		g, err := walk.Load(*edges)
		if err != nil {
			fmt.Fprintln(os.Stderr, err)
			os.Exit(2)
		}
		var mk func() det.Impl
		switch *kind {
		case "l1":
			mk = func() det.Impl {
				conc := l1.NewConc(*seed, parseScale(*scale))
				cfg := l1.DefaultRunCfg()
				l1.ApplyMeta(&cfg, conc, g.Meta)
				return l1Impl{l1.NewChain(conc, cfg)}
			}
		case "l2":
			mk = func() det.Impl {
				ch := l2.NewChain(l1.NewConc(*seed, parseScale(*scale)), l2Cfg(g.Meta))
				ch.NoGasProbe = true
				return l2Impl{ch}
			}
		case "val":
			mk = func() det.Impl { return newValImpl(*seed, *scale, g.Meta).(valImpl) }
		case "oracle":
			mk = func() det.Impl { return newOracleImpl(*seed, *scale, g.Meta).(oracleImpl) }
		default:
			fmt.Fprintln(os.Stderr, "unknown --kind", *kind)
			os.Exit(2)
		}
		st, err := det.Run(g, mk, *paths, *maxLen, *replicas, *seed, *out)
		if err != nil {
			fmt.Fprintln(os.Stderr, err)
			os.Exit(2)
		}
		bz, _ := json.Marshal(st)
		fmt.Println(string(bz))
	case "bridge-walk":
		g, err := walk.Load(*edges)
		if err != nil {
			fmt.Fprintln(os.Stderr, err)
			os.Exit(2)
		}
		rep := walk.Walk(g, func() walk.Impl { return bridgeImpl{bridge.New(l1.NewConc(*seed, parseScale(*scale)), g.Meta)} }, *keep)
		writeJSON(*out, rep)
	case "bridge-replay":
		os.Exit(replayGeneric(*file, func(nb absx.M) walk.Impl {
			meta := absx.Map(nb["meta"])
			if absx.Bool(meta["driver"]) {
				meta = bridge.DriveMeta()
			}
			return bridgeImpl{bridge.New(l1.NewConc(absx.Int(nb["seed"]), parseScale(absx.Str(nb["scale"]))), meta)}
		}))
	case "oracle-walk":
		g, err := walk.Load(*edges)
		if err != nil {
			fmt.Fprintln(os.Stderr, err)
			os.Exit(2)
		}
		rep := walk.Walk(g, func() walk.Impl { return newOracleImpl(*seed, *scale, g.Meta) }, *keep)
		writeJSON(*out, rep)
	case "oracle-replay":
		os.Exit(replayGeneric(*file, func(nb absx.M) walk.Impl {
			meta := absx.Map(nb["meta"])
			if absx.Bool(meta["driver"]) {
				meta = l2.DriveOracleMeta()
				meta["enabled"] = absx.Int(nb["run"])%5 != 4
			}
			return newOracleImpl(absx.Int(nb["seed"]), absx.Str(nb["scale"]), meta)
		}))
	case "val-replay":
		os.Exit(replayGeneric(*file, func(nb absx.M) walk.Impl {
			return newValImpl(absx.Int(nb["seed"]), absx.Str(nb["scale"]), absx.Map(nb["meta"]))
		}))
	case "l2-replay":
		os.Exit(replayGeneric(*file, func(nb absx.M) walk.Impl {
			conc := l1.NewConc(absx.Int(nb["seed"]), parseScale(absx.Str(nb["scale"])))
			return l2Impl{l2.NewChain(conc, l2Cfg(absx.Map(nb["meta"])))}
		}))
	case "l1-replay":
		os.Exit(replayL1(*file))
	default:
		fmt.Fprintln(os.Stderr, "unknown command", cmd)
		os.Exit(2)
	}
}

// replayL1 re-executes a replay file written by bin/check: the event path from the initial state, then
// the offending event, printing what the real chain does next to what the specification expects.
func replayL1(path string) int {
	bz, err := os.ReadFile(path)
	if err != nil {
		fmt.Fprintln(os.Stderr, err)
		return 2
	}
	var body map[string]any
	if err := json.Unmarshal(bz, &body); err != nil {
		fmt.Fprintln(os.Stderr, err)
		return 2
	}
	nb := absx.Map(absx.Norm(body))
	conc := l1.NewConc(absx.Int(nb["seed"]), parseScale(absx.Str(nb["scale"])))
	cfg := l1.DefaultRunCfg()
	if m, ok := nb["meta"].(absx.M); ok {
		if absx.Bool(m["driver"]) {
			cfg = l1.DriveCfg()
			if conc.Cap() < 100 {
				cfg.Amt0 = 12
			}
		} else {
			l1.ApplyMeta(&cfg, conc, m)
		}
	}
	ch := l1.NewChain(conc, cfg)
	for i, e := range absx.List(nb["path"]) {
		o := ch.Exec(absx.Map(e))
		fmt.Printf("step %d %s -> ok=%v %s\n", i+1, absx.Canon(e), o.OK, o.Err)
	}
	ev := absx.Map(nb["event"])
	o := ch.Exec(ev)
	fmt.Printf("EVENT %s\n  implementation: ok=%v err=%q resp=%s\n  specification expected: %s\n", absx.Canon(ev), o.OK, o.Err, absx.Canon(o.Resp), absx.Canon(nb["expect"]))
	if o.OK {
		fmt.Printf("  post-state: %s\n", absx.Canon(ch.Project()))
	}
	exp := absx.Map(nb["expect"])
	if sv, ok := exp["spec_ok"].(bool); ok && sv != o.OK {
		fmt.Println("REPRODUCED: result differs from the specification")
		return 1
	}
	if absx.Str(nb["kind"]) != "result" {
		fmt.Println("REPRODUCED? compare post-state/response above with expect.detail")
		return 1
	}
	fmt.Println("not reproduced")
	return 0
}

func replayGeneric(path string, mk func(nb absx.M) walk.Impl) int {
	bz, err := os.ReadFile(path)
	if err != nil {
		fmt.Fprintln(os.Stderr, err)
		return 2
	}
	var body map[string]any
	if err := json.Unmarshal(bz, &body); err != nil {
		fmt.Fprintln(os.Stderr, err)
		return 2
	}
	nb := absx.Map(absx.Norm(body))
	im := mk(nb)
	for i, e := range absx.List(nb["path"]) {
		ok, _, errs := im.Exec(absx.Map(e))
		fmt.Printf("step %d %s -> ok=%v %s\n", i+1, absx.Canon(e), ok, errs)
	}
	ev := absx.Map(nb["event"])
	ok, resp, errs := im.Exec(ev)
	fmt.Printf("EVENT %s\n  implementation: ok=%v err=%q resp=%s\n  specification expected: %s\n", absx.Canon(ev), ok, errs, absx.Canon(resp), absx.Canon(nb["expect"]))
	if ok {
		fmt.Printf("  post-state: %s\n", absx.Canon(im.Project()))
	}
	exp := absx.Map(nb["expect"])
	if sv, isb := exp["spec_ok"].(bool); isb && sv != ok {
		fmt.Println("REPRODUCED: result differs from the specification")
		return 1
	}
	if absx.Str(nb["kind"]) != "result" {
		fmt.Println("REPRODUCED? compare post-state/response above with expect.detail")
		return 1
	}
	fmt.Println("not reproduced")
	return 0
}
