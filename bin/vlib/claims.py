"""Per-property claim texts for MANIFEST.json."""
COMMON_NOTE = ('Exhaustive only within the bounded constants of the MC_* family (DESIGN.md 7); the harness fixture (IAVL multistore, real auth/bank/ophost/opchild '
               'keepers, MsgServiceRouter, per-message store branch) stands in for baseapp; TLC, the Go toolchain, SHA3/SHA256 and the SDK bank/auth keepers are trusted.')
CLAIMS = {
    'C01': dict(text='The L1Host specification (guards/effects of every ophost handler) satisfies per-step escrow conservation, only-withdrawal-debits, per-bridge isolation and '
                     'bystander frame conditions on every transition of the bounded ledger model (TLC, exhaustive), and every one of those transitions - deposits to existing and '
                     'non-existing bridge ids, claims, plain sends to escrow addresses, fee changes, genesis round trips - is executed on the real keeper and its full projected '
                     'state (all tracked balances, stray balances, every collection) compared with the specification.', note=COMMON_NOTE),
    'C02': dict(text='Bounded model with overlapping trees (the same leaf committed by three outputs, re-proposal after deletion): TLC checks that a claim succeeds only if the leaf '
                     'was unclaimed and marks it claimed; every transition incl. every re-submission is replayed on the real keeper; Claimed is read through the gRPC query and '
                     'cross-checked against the raw store.', note=COMMON_NOTE),
    'C03': dict(text='The perturbation alphabet (each leaf field, sender/recipient swap, other bridge id, version byte, block hash, other tree/position/output index, proof bit flip, '
                     'dropped/duplicated/extended/short proof element) is enumerated in TLA+; whether a perturbed claim verifies is decided by an independent implementation of the '
                     'formats, and every perturbed claim is submitted to the real keeper: acceptance must coincide with rootMatches/proofOK/notClaimed of the specification.', note=COMMON_NOTE + ' SHA3 collision resistance.'),
    'C05': dict(text='Bounded model over periods {-4..3}, block times advancing by 0/1/2 half-second ticks, all interleavings of propose/delete/re-propose/finalize: TLC checks '
                     'WindowHonoured, PositivePeriod, FinalIrreversible, FinalPrefix, LastFinalQuery, DeletableUntilFinal; every transition (incl. exactly-at / one-tick-around boundary '
                     'instants) is replayed on the real keeper with real block headers.', note=COMMON_NOTE),
    'C10': dict(text='Ledger model over bridge ids {1,2,3} (3 never created): per-bridge gap-free sequences, deposits only to existing bridges, new bridge starts clean, event fields '
                     'parsed from the real emitted event equal the request, token pair = independent derivation and immutable; all transitions replayed on the real keeper.', note=COMMON_NOTE),
    'C11': dict(text='Contiguous / L2Increasing / TimeMonotone invariants and ProposeRule / DeleteRule action properties hold on the bounded oracle model; every propose/delete with '
                     'indices 0..3 and block numbers 1..3 in every reachable log state is replayed on the real keeper and the stored outputs (root, L2 block, L1 height, L1 time) compared.', note=COMMON_NOTE),
    'C19': dict(text='Bounded model over metadata classes (valid list, repeated channel, unknown field, differently-cased key, non-JSON, wrong type) x channel states (missing, fresh, in use, '
                     'taken) x challengers: GrantOnlyIf, ChallengerHandsOver and the admin frame condition hold; every transition runs through MsgCreateBridge/MsgUpdateMetadata/'
                     'MsgUpdateChallenger with the real hook.BridgeHook wired to an in-store channel/perm keeper.', note=COMMON_NOTE + ' The IBC channel and perm keepers are harness implementations of the hook interfaces (the real ones are not in this repository).'),
}
NOT_YET = {}
