"""Per-property claim texts for MANIFEST.json."""
E3 = (' In the other direction (E3) seeded random drivers run long histories on the real keepers, record every message with result, response and full projected state, '
      'and TLC checks each recorded step against the same Step function and evaluates the property on every recorded transition.')
COMMON_NOTE = ('Exhaustive only within the bounded constants of the MC_* family (DESIGN.md 7); the harness fixture (IAVL multistore, real auth/bank/ophost/opchild '
               'keepers, MsgServiceRouter, per-message store branch) stands in for baseapp; TLC, the Go toolchain, SHA3/SHA256 and the SDK bank/auth keepers are trusted.')
CLAIMS = {
    'C01': dict(text='The L1Host specification (guards/effects of every ophost handler) satisfies per-step escrow conservation, only-withdrawal-debits, per-bridge isolation and '
                     'bystander frame conditions on every transition of the bounded ledger model (TLC, exhaustive), and every one of those transitions - deposits to existing and '
                     'non-existing bridge ids, claims, plain sends to escrow addresses, fee changes, genesis round trips - is executed on the real keeper and its full projected '
                     'state (all tracked balances, stray balances, every collection) compared with the specification.' + E3, note=COMMON_NOTE),
    'C02': dict(text='Bounded model with overlapping trees (the same leaf committed by three outputs, re-proposal after deletion): TLC checks that a claim succeeds only if the leaf '
                     'was unclaimed and marks it claimed; every transition incl. every re-submission is replayed on the real keeper; Claimed is read through the gRPC query and '
                     'cross-checked against the raw store.' + E3, note=COMMON_NOTE),
    'C03': dict(text='The perturbation alphabet (each leaf field, sender/recipient swap, other bridge id, version byte, block hash, other tree/position/output index, proof bit flip, '
                     'dropped/duplicated/extended/short proof element) is enumerated in TLA+; whether a perturbed claim verifies is decided by an independent implementation of the '
                     'formats, and every perturbed claim is submitted to the real keeper: acceptance must coincide with rootMatches/proofOK/notClaimed of the specification.' + E3, note=COMMON_NOTE + ' SHA3 collision resistance.'),
    'C05': dict(text='Bounded model over periods {-4..3}, block times advancing by 0/1/2 half-second ticks, all interleavings of propose/delete/re-propose/finalize: TLC checks '
                     'WindowHonoured, PositivePeriod, FinalIrreversible, FinalPrefix, LastFinalQuery, DeletableUntilFinal; every transition (incl. exactly-at / one-tick-around boundary '
                     'instants) is replayed on the real keeper with real block headers. A second family (window) runs periods and block times at a scale of 2^33 ns per tick so that nanosecond-truncating or seconds-rounding '
                     'comparisons differ from the exact one; the order-theoretic core (FinalStays, FinalPrefix, L2Increasing, TimeMonotone) is additionally discharged as an inductive invariant over unbounded integers by Apalache '
                     '(OutputOracleInd.tla, logs up to 4 outputs) and, with no bound at all, proved with the TLA+ proof system (OutputOracleProof.tla: tlapm checks 123 obligations - IndInv inductive, IndInv => L2Increasing /\\ TimeMonotone /\\ FinalPrefix, every step keeps final outputs in place and final).' + E3, note=COMMON_NOTE),
    'C10': dict(text='Ledger model over bridge ids {1,2,3} (3 never created): per-bridge gap-free sequences, deposits only to existing bridges, new bridge starts clean, event fields '
                     'parsed from the real emitted event equal the request, token pair = independent derivation and immutable; all transitions replayed on the real keeper.' + E3, note=COMMON_NOTE),
    'C11': dict(text='Contiguous / L2Increasing / TimeMonotone invariants and ProposeRule / DeleteRule action properties hold on the bounded oracle model; every propose/delete with '
                     'indices 0..3 and block numbers 1..3 in every reachable log state is replayed on the real keeper and the stored outputs (root, L2 block, L1 height, L1 time) compared, also through the paginated gRPC queries (OutputProposals with every offset/limit/reverse, LastFinalizedOutput, NextL1Sequence). '
                     'The log-shape invariants are also proved inductive over unbounded integers by Apalache (OutputOracleInd.tla, logs up to 4 outputs) and for logs of any length by a TLAPS proof (OutputOracleProof.tla).' + E3, note=COMMON_NOTE),
    'C18': dict(text='Replicas.tla states determinism as agreement of K replicas applying one log (checked by TLC, and shown to fail for a deliberately non-deterministic Apply in the selftest). '
                     'Histories are behaviours of the other specifications: random paths through the transition graphs TLC emits for the validator-set, plan, oracle, L2 deposit and L1 families '
                     '(multi-removal blocks, plans over several validators, oracle aggregation, genesis round trips); each path runs on 4 (quick) / 8 (thorough) fresh instances - every second one a node that first executes each event speculatively on a store branch it then abandons, sharing what the process keeps in memory (plan registry, keeper-level caches) -, every log position '
                     'records a hash of the raw key/value dump of every module store and a hash of result, error text, response bytes, ordered events and ordered validator updates per replica, and '
                     'TLC checks Agreement on the recorded trace.', technique='TLA+ replication spec checked by TLC; recorded multi-replica traces of spec behaviours validated by TLC',
                note='Replicas of one process read the same wall clock, so that one source of non-determinism is looked for by a source scan (reads of time.Now / Since / Until outside telemetry calls, math/rand imports) run with the check - a guard next to the model-based check, not part of it. Non-determinism is only seen if it manifests in the K runs (Go randomises map iteration per range loop, so a 3-element map order differs between two runs with probability 5/6). Fresh instances share one process.'),
    'C19': dict(text='Bounded model over metadata classes (valid list, repeated channel, unknown field, differently-cased key, non-JSON, wrong type) x channel states (missing, fresh, in use, '
                     'taken) x challengers: GrantOnlyIf, ChallengerHandsOver and the admin frame condition hold; every transition runs through MsgCreateBridge/MsgUpdateMetadata/'
                     'MsgUpdateChallenger with the real hook.BridgeHook wired to an in-store channel/perm keeper.' + E3, note=COMMON_NOTE + ' The IBC channel and perm keepers are harness implementations of the hook interfaces (the real ones are not in this repository).'),
}
CLAIMS.update({
    'C04': dict(text='Bridge.tla composes both chains with a faithful executor, a proposer that builds the tree with the published rule (Formats), a challenger and claimants; Completeness '
                     '(every recorded withdrawal with a valid recipient that a final output covers is accepted when claimed, user withdrawals and refunds of failed deposits alike) and '
                     'NoStuckTransfer (neither chain records a transfer above the 64-bit cap: amounts of exactly 2^64 are offered to both entry points) are TLC invariants, and every transition '
                     'runs on the two real chains. The trees family proposes a tree of every size 1..8 (16 thorough) and claims every leaf position through the real handler with proofs built '
                     'by the independent implementation of the tree rule; recipients written in upper-case bech32 (a different string for the same account) are among the leaves. E3: seeded histories of the two real chains with the '
                     'off-chain roles (Trace_Bridge.tla) check Completeness and NoStuckTransfer on every recorded state and end with a canonical drain schedule after which every claimable withdrawal must have been paid.', note=COMMON_NOTE + ' Amounts are abstract units at scale 2^62 (3 units fit 64 bits, 4 units = 2^64).'),
    'C08': dict(text='Solvency (escrow = L2 supply + deposits not yet finalized on L2 + withdrawals not yet paid on L1, per denom), Holdings (users\' combined holdings + value in flight constant) '
                     'and DrainedOK are TLC invariants, and Flow (value moves only along the bridge\'s edges: in-flight value grows only by an accepted L1 deposit and shrinks only by a processed relay into L2 supply or a recorded withdrawal, L2 supply shrinks only into recorded withdrawals, recorded withdrawals are paid only by accepted claims into the recipient\'s L1 balance) an action property, of the composed model over deposits (credited and refunded), L2 transfers, withdrawals, relays incl. duplicates and unauthorised relayers, '
                     'proposals, a challenge with re-proposal, time advances and claims in any order; every transition is executed on the two real chains in one process, the deposit / withdrawal '
                     'logs being rebuilt from the events the real chains emit, and the full projected state of both chains compared. The liveness half is a TLC temporal check (MC_BridgeLive: under weak fairness of relay, propose, '
                     'time and claim the system is eventually drained with escrow = L2 supply; without fairness TLC finds the expected lasso), bound to the code by E3: every recorded two-chain history (Trace_Bridge.tla) ends with the '
                     'canonical fair schedule (relay all, propose, wait, claim all) executed on the real chains, after which Drained and Solvency must hold.', note=COMMON_NOTE + ' Liveness is checked on the specification and exercised on the code for one canonical fair schedule per recorded history, not for every fair schedule.'),
    'C06': dict(text='Relay model: three/four pending deposits, two executors and a stranger, every sequence (incl. 0, replays, gaps, ahead) offered in every state, interleaved with a '
                     'withdrawal and an executor rotation: InOrderOnce, NoopIsNoop, AheadRejected hold on every transition (TLC) and every transition is replayed on the real keeper; '
                     'NextL1Sequence is read through the gRPC query.' + E3, note=COMMON_NOTE),
    'C07': dict(text='Deposit model: recipients {valid, malformed, blocked module account} x amounts {0,2} x hook payloads {none, undecodable, badly signed, well signed ok / failing / '
                     'failing at message 2 / panicking handler / signer without funds} x hook gas {ample, below signature cost, zero} x injected error or panic in MintCoins / '
                     'SendCoinsFromModuleToAccount: Outcome (credited xor exactly one refund withdrawal under the next L2 sequence), HookContained (only the signer sequence is consumed) and '
                     'exact hook gas accounting (handler with the hook minus the same deposit with a payload that fails before running: at most HookMaxGas); hook messages are bank sends, the signer\'s own withdrawals and deposits delivered from inside the hook, run by the same Step function on a branch; '
                     'DepositNeverStalls hold; each case runs on the real keeper with real signed hook transactions and a fault-injecting bank keeper wrapper.' + E3,
                note=COMMON_NOTE + ' The hook gas bound is observed by measuring the gas the hook consumed on the real keeper (hookGasOK in the response), not by modelling gas costs.'),
    'C09': dict(text='Withdrawals of bridged / native / unknown denoms for amounts 0, within and beyond balance, interleaved with credited and refunded deposits and a deposit naming another '
                     'base denom for an existing L2 denom: WithdrawExact, PairImmutable, gap-free shared L2 sequence, per-step bridged supply delta and supply = sum of balances hold and are '
                     'replayed on the real keeper (bank supply and BaseDenom query included in the projected state).' + E3, note=COMMON_NOTE),
    'C12': dict(text='Every permissioned L1 message x signers {gov, proposer, challenger, their replacements, stranger} in every state reachable by role rotations; every L2 message '
                     '(deposit finalization, bridge info with every single-field re-pointing, params, fee pool, batched execution with good / foreign-signer / failing inner messages) x '
                     'signers {authority, admin, executors, stranger} across executor and admin rotations; validator messages x {authority, stranger}: AuthOnlyIf + sufficiency, '
                     'BindingImmutable, ExecAllOrNothing hold (TLC) and every transition is replayed on the real keepers.' + E3, note=COMMON_NOTE),
    'C13': dict(text='Validator-set model from six genesis sets (incl. zero-power and duplicate-key entries, over-cap sets rejected), add / remove / max-validators / retention changes in '
                     'every grouping over blocks, genesis round trips between blocks: Good (engine set = positive-power validators = last powers, indexes one-to-one, capacity, no halt) is '
                     'inductive, BatchWellFormed and HistoryExact hold; every transition runs on the real keeper through BeginBlocker / EndBlocker and every returned batch is applied to a '
                     'real CometBFT ValidatorSet.' + E3, note=COMMON_NOTE + ' Histories that would leave the consensus engine with an empty set are outside the model (the statement gives no acceptance criterion for them).'),
    'C14': dict(text='Plans with new / existing operator and new / used consensus key, registered for the current or next heights, over the validator-set states of the plan model: PlanApplied, '
                     'OnlyAtHeight, RegisterRejects hold for plans that reuse neither an operator nor a key; the two reuse cases are open known findings whose signature is computed by '
                     'the specification AND re-evaluated on the real chain after EndBlocker (KNOWN-FINDING lines); every transition is replayed on the real keeper and CometBFT set; plans over one and two executors.' + E3,
                note=COMMON_NOTE),
    'C15': dict(text='Oracle.tla transcribes UpdateOracle (executor, enabled flag, height vs recorded set, per-vote checks in code order, cumulative-power quorum, decoding, per-pair '
                     'stake-weighted median over each validator\'s last reporting vote with the 0.667 threshold, timestamp pair required, strictly increasing timestamps) and the host-set '
                     'refresh; QuorumSound is stated independently on distinct validly-signing known validators. Bounded model: 3 known validators (powers 1,1,1 and 2,1,1), a 5-validator set, a same-size set with one member replaced, + 1 unknown, '
                     'per-validator vote kinds x duplicated / unknown / garbage extras, 7 signature kinds, set refreshes from the right / wrong / empty client at higher / lower heights; '
                     'every vote list is built with real ed25519 keys and signatures and submitted through the real MsgUpdateOracle.' + E3 + ' (host sets of one to seven validators with powers 1..6 and 1000, three currency pairs, vote lists in random order)', note=COMMON_NOTE + ' The connect oracle keeper, vote aggregator and codecs are the real ones and trusted.'),
    'C16': dict(text='A genesis round trip (export -> JSON -> ValidateGenesis -> InitGenesis on a fresh instance -> second export compared) is an event in the L1 ledger, L2 deposit and '
                     'validator-set models, offered in every reachable state; the walk CONTINUES on the re-imported chain, so every later message and query of the model is answered by the '
                     're-imported chain and compared with the specification (where the round trip leaves the abstract state unchanged, every event enabled in that state is executed once more on the re-imported chain), and the L2 import feeds InitGenesis updates to a fresh CometBFT set.' + E3, note=COMMON_NOTE),
    'C17': dict(text='Formats.tla defines leaf, node, root-from-proof, output root, L2 denom and escrow address as a term algebra and the tree / proof rule; TLC emits one term per operator and '
                     'structural case (node: <,=,>,adjacent; proofs of length 0..6; trees of 1..9 leaves x every position); a generic evaluator that knows only be64/str/cat/sha3/sha256/hex '
                     'fills the holes with seeded full-range values and the bytes are compared with the chain functions and with pinned vectors; SliceMem.tla models slice headers and append, '
                     'TLC checks Pure and LayoutFree for all layouts of 3 items x comparison outcomes, and each layout is built for real and run through GenerateRootHashFromProofs and through '
                     'the FinalizeTokenWithdrawal handler (called without a protobuf round trip).', technique='TLA+-defined functions enumerated by TLC, evaluated by a generic term evaluator, replayed on the real functions; memory model checked by TLC',
                note='Weaker than temporal model checking: a pure function is transcribed and enumerated. SHA3/SHA256 implementations trusted; inputs per case are sampled (full-range seeded values), structural cases are exhaustive within the bounds.'),
    'C20': dict(text='Ante.tla defines FeeAdmit, SystemLane, FreeLane and the redundant-relay filter; TLC enumerates 2 denoms x node/chain prices {0,1/4,1/2,5/4} x gas {1,2,3,7} x fees 0..3 x '
                     'check/deliver (32768 fee cases), message lists and nesting shapes, whitelist x payer x granter, stale/fresh/ahead deposit mixes x check/recheck/deliver x simulate, checks '
                     'monotonicity and the two stated directions, and every case is built as a real transaction and run through the real decorators and match handlers.',
                technique='TLA+-defined decision functions enumerated by TLC and replayed case by case on the real decorators', note='Exhaustive within the enumerated domain only; gas = 0 and transactions mixing stale deposits with other messages are outside the statement (recorded as drift).'),
})
NOT_YET = {}
