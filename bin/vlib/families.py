"""Static description of model families and of the properties they serve (DESIGN.md section 7)."""

U63 = str(2**62)         # scale at which 3 abstract units fit in 64 bits and 4 units are exactly 2^64 (model constant cap = 3)

FAMILIES = {
    # ---- L1 (x/ophost) ------------------------------------------------------------------------
    'l1.oracle': dict(module='MC_L1', fam='oracle', walker='l1-walk', scale=U63,
                      invariants=['Inv_Oracle', 'Inv_PositivePeriod'],
                      properties=['P_ProposeRule', 'P_DeleteRule', 'P_WindowHonoured', 'P_FinalIrreversible',
                                  'P_NoEffectOnReject', 'P_AuthOnlyIf'],
                      failcap=dict(quick=1, thorough=2), timeout=dict(quick=1680, thorough=9000)),
    'l1.ledger': dict(module='MC_L1', fam='ledger', walker='l1-walk', scale=U63,
                      invariants=[],
                      properties=['P_EscrowDelta', 'P_OnlyWdDebits', 'P_Isolation', 'P_Bystanders', 'P_SeqGapFree', 'P_OnlyExisting',
                                  'P_NewBridgeClean', 'P_EventFaithful', 'P_PairDeterministic', 'P_NoEffectOnReject'],
                      failcap=dict(quick=1, thorough=2), timeout=dict(quick=1680, thorough=9000)),
    'l1.claims': dict(module='MC_L1', fam='claims', walker='l1-walk', scale=U63,
                      invariants=[],
                      properties=['P_Soundness', 'P_NoEffectOnReject'],
                      failcap=dict(quick=1, thorough=2), timeout=dict(quick=1680, thorough=9000)),
    'l1.auth': dict(module='MC_L1', fam='auth', walker='l1-walk', scale=U63,
                    invariants=[], properties=['P_AuthOnlyIf'],
                    failcap=dict(quick=1, thorough=2), timeout=dict(quick=1680, thorough=9000)),
    'l1.perm': dict(module='MC_L1', fam='perm', walker='l1-walk', scale=U63,
                    invariants=[], properties=['P_GrantOnlyIf'],
                    failcap=dict(quick=1, thorough=2), timeout=dict(quick=1680, thorough=9000)),
    'l1.window': dict(module='MC_L1', fam='window', walker='l1-walk', scale=U63, tickscale=str(2**33),
                      invariants=['Inv_Oracle', 'Inv_PositivePeriod'], properties=['P_WindowHonoured', 'P_FinalIrreversible', 'P_DeleteRule', 'P_ProposeRule'],
                      failcap=dict(quick=1, thorough=2), timeout=dict(quick=1500, thorough=7200)),
    'l1.trees': dict(module='MC_L1', fam='trees', walker='l1-walk', scale=U63,
                     invariants=[], properties=['P_Soundness', 'P_EscrowDelta', 'P_NoEffectOnReject'],
                     failcap=dict(quick=1, thorough=2), timeout=dict(quick=1680, thorough=9000)),
    # ---- unbounded-integer inductive invariant of the output-oracle fragment (Apalache) -------------
    'l1.oracle-ind': dict(kind='apalache', module='OutputOracleInd',
                          obligations=[('Init => IndInv', 'Init', 'IndInv', 0), ("IndInv /\\ Next => IndInv'", 'IndInit', 'IndInv', 1),
                                       ('IndInv => L2Increasing /\\ TimeMonotone /\\ FinalPrefix', 'IndInit', 'Structure', 0),
                                       ("IndInv /\\ Next => FinalStays (final outputs are never deleted or un-finalized)", 'IndInit', 'FinalStays', 1)],
                          invariants=['IndInv', 'Structure', 'FinalStays'], properties=[], timeout=dict(quick=1500, thorough=7200)),
    # ---- the same fragment with no bound at all, proved with the TLA+ proof system --------------------
    'l1.oracle-proof': dict(kind='tlaps', module='OutputOracleProof', theorems=['InitInv', 'NextInv', 'StructureHolds', 'FinalIrreversible', 'Safety'],
                            invariants=['IndInv', 'Structure', 'FinalStays'], properties=[], timeout=dict(quick=1500, thorough=7200)),
    # ---- both chains + off-chain roles (Bridge.tla) --------------------------------------------
    'br.one': dict(module='MC_Bridge', fam='one', walker='bridge-walk', scale=U63,
                   invariants=['Inv_Solvency', 'Inv_Completeness', 'Inv_NoStuck', 'Inv_Holdings', 'Inv_DrainedOK'], properties=['P_Flow'],
                   failcap=dict(quick=1, thorough=2), timeout=dict(quick=1680, thorough=9000)),
    'br.live': dict(kind='liveness', module='MC_BridgeLive', spec='LiveSpec', temporal=['EventuallyDrained', 'SolvencyAlways'], invariants=[], properties=['EventuallyDrained', 'SolvencyAlways'],
                    timeout=dict(quick=1500, thorough=7200)),
    # ---- L2 (x/opchild) -----------------------------------------------------------------------
    'l2.relay': dict(module='MC_L2', fam='relay', walker='l2-walk', scale=U63,
                     invariants=['Inv_Supply'], properties=['P_Relay', 'P_NoEffectOnReject'],
                     failcap=dict(quick=2, thorough=3), timeout=dict(quick=1500, thorough=7200)),
    'l2.deposit': dict(module='MC_L2', fam='deposit', walker='l2-walk', scale=U63,
                       invariants=['Inv_Supply'], properties=['P_Relay', 'P_Deposit', 'P_Withdraw', 'P_NoEffectOnReject'],
                       failcap=dict(quick=2, thorough=3), timeout=dict(quick=1500, thorough=7200)),
    'l2.auth': dict(module='MC_L2', fam='auth', walker='l2-walk', scale=U63,
                    invariants=[], properties=['P_Auth', 'P_NoEffectOnReject'],
                    failcap=dict(quick=2, thorough=3), timeout=dict(quick=1500, thorough=7200)),
    # ---- L2 validator set ---------------------------------------------------------------------
    'val.valset': dict(module='MC_Val', fam='valset', walker='val-walk', scale='1',
                       invariants=[], properties=['P_ValSet', 'P_Plan', 'P_NoEffectOnReject'],
                       failcap=dict(quick=1, thorough=2), timeout=dict(quick=1500, thorough=7200)),
    'val.plan': dict(module='MC_Val', fam='plan', walker='val-walk', scale='1',
                     invariants=[], properties=['P_ValSet', 'P_Plan', 'P_NoEffectOnReject'],
                     failcap=dict(quick=1, thorough=2), timeout=dict(quick=1500, thorough=7200)),
    # ---- oracle relay (C15) --------------------------------------------------------------------
    'or.oracle': dict(module='MC_Oracle', fam='oracle', walker='oracle-walk', scale='1',
                      invariants=[], properties=['P_Oracle', 'P_NoEffectOnReject'],
                      failcap=dict(quick=1, thorough=2), timeout=dict(quick=1500, thorough=7200)),
    'or.disabled': dict(module='MC_Oracle', fam='disabled', walker='oracle-walk', scale='1',
                        invariants=[], properties=['P_Oracle', 'P_NoEffectOnReject'],
                        failcap=dict(quick=1, thorough=2), timeout=dict(quick=1500, thorough=7200)),
    # ---- determinism (C18): K fresh instances on behaviours of the other models; Agreement checked by TLC on the recorded trace
    'det.replicas': dict(kind='replicas', module='Replicas', trace_module='Trace_Replicas',
                         sources=dict(quick=[('val.valset', 'val'), ('val.plan', 'val'), ('or.oracle', 'oracle'), ('l2.deposit', 'l2'), ('l1.auth', 'l1')],
                                      thorough=[('val.valset', 'val'), ('val.plan', 'val'), ('or.oracle', 'oracle'), ('l2.deposit', 'l2'), ('l2.auth', 'l2'), ('l1.auth', 'l1'), ('l1.ledger', 'l1'), ('l1.perm', 'l1')]),
                         consts=dict(quick=dict(paths=40, length=30, replicas=4), thorough=dict(paths=400, length=60, replicas=8)),
                         invariants=['Agreement'], properties=[], timeout=dict(quick=1500, thorough=9000)),
    # ---- formats / purity (C17): enumeration of a TLA+-defined function and replay --------------
    'fmt.formats': dict(kind='formats', module='MC_Formats', sm_module='SliceMem',
                        consts=dict(quick=dict(MaxTree=9, MaxProof=6, NItems=3, rounds=60), thorough=dict(MaxTree=16, MaxProof=8, NItems=4, rounds=1500)),
                        invariants=['Pure', 'LayoutFree'], properties=[], timeout=dict(quick=1500, thorough=7200)),
    # ---- mempool admission (C20): enumeration of TLA+-defined decision functions and replay ----
    'ante.cases': dict(kind='cases', module='MC_Ante', checker='ante-check', invariants=[], properties=[], timeout=dict(quick=1500, thorough=7200)),
}

# E3: seeded random histories recorded from the real keepers, validated by TLC against the same Step
TRACES = {
    'l1': dict(driver='l1-drive', module='Trace_L1', mod='l1', runs=dict(quick=12, thorough=150), length=dict(quick=200, thorough=400), timeout=dict(quick=1500, thorough=9000),
               inv_tags=dict(Contiguous=['C11'], L2Increasing=['C11'], FinalPrefix=['C11', 'C05'], LastFinalQuery=['C05'], PositivePeriod=['C05'], NoStray=['C01'])),
}
TRACES['l2'] = dict(driver='l2-drive', module='Trace_L2', mod='l2', runs=dict(quick=12, thorough=150), length=dict(quick=200, thorough=400), timeout=dict(quick=1500, thorough=9000),
                    inv_tags=dict(SupplyMatchesBalances=['C09', 'C07'], NoStray=['C09', 'C07'], SeqL1Step=['C06'], SeqL2Step=['C09', 'C07'], PairImmutable=['C09'], NoEffectOnReject=['C06', 'C07', 'C09']))
TRACES['val'] = dict(driver='val-drive', module='Trace_Val', mod='val', runs=dict(quick=10, thorough=120), length=dict(quick=250, thorough=500), timeout=dict(quick=1500, thorough=9000),
                     inv_tags=dict(Halted=['C13'], BatchRejectedByEngine=['C13'], IndexBijective=['C13'], Capacity=['C13'], EngineAgrees=['C13']))
TRACES['br'] = dict(driver='bridge-drive', module='Trace_Bridge', mod='br', runs=dict(quick=9, thorough=40), length=dict(quick=200, thorough=250), timeout=dict(quick=1600, thorough=10800),
                    inv_tags=dict(Solvency=['C08'], Holdings=['C08'], Flow=['C08'], NoStuckTransfer=['C04'], Completeness=['C04', 'C08'], DrainedAfterCanonicalSchedule=['C08', 'C04']))

TRACES['or'] = dict(driver='oracle-drive', module='Trace_Oracle', mod='or', runs=dict(quick=10, thorough=120), length=dict(quick=200, thorough=400), timeout=dict(quick=1500, thorough=9000),
                    inv_tags=dict(QuorumSound=['C15'], HeightNotOlder=['C15'], HostSetOnlyForward=['C15'], NoEffectOnReject=['C15'], ClientBound=['C15', 'C12']))

# property -> engines.  `floor`: minimum counts below which the run is considered vacuous (exit 2).
PROPERTIES = {
    'C01': dict(traces=['l1'], families=['l1.ledger'], title='L1 escrow conservation and isolation'),
    'C02': dict(traces=['l1'], families=['l1.claims'], title='withdrawal paid at most once'),
    'C03': dict(traces=['l1'], families=['l1.claims'], title='withdrawals cannot be forged'),
    'C04': dict(traces=['br'], families=['br.one', 'l1.trees'], title='every recorded withdrawal can be claimed'),
    'C05': dict(traces=['l1'], families=['l1.oracle', 'l1.window', 'l1.oracle-ind', 'l1.oracle-proof'], title='challenge window / finality'),
    'C06': dict(traces=['l2'], families=['l2.relay', 'l2.deposit'], title='L2 credits each deposit exactly once, in order'),
    'C07': dict(traces=['l2'], families=['l2.deposit', 'l1.ledger'], title='deposit neither lost nor blocking; hooks contained'),
    'C08': dict(traces=['br'], families=['br.one', 'br.live'], title='end-to-end solvency'),
    'C09': dict(traces=['l2'], families=['l2.deposit'], title='L2 bridged supply conserved'),
    'C10': dict(traces=['l1'], families=['l1.ledger'], title='L1 deposit sequences / events'),
    'C11': dict(traces=['l1'], families=['l1.oracle', 'l1.ledger', 'l1.oracle-ind', 'l1.oracle-proof'], title='output oracle log structure'),
    'C12': dict(traces=['l1', 'l2'], families=['l1.auth', 'l2.auth', 'val.valset', 'val.plan'], title='authorization'),
    'C13': dict(traces=['val'], families=['val.valset', 'val.plan'], title='validator set equals what the engine was told'),
    'C14': dict(traces=['val'], families=['val.plan'], title='executor change plan'),
    'C15': dict(traces=['or'], families=['or.oracle', 'or.disabled'], title='oracle prices need a signed quorum'),
    'C16': dict(traces=['l1', 'l2'], families=['l1.ledger', 'l1.auth', 'l2.deposit', 'val.valset'], title='genesis round trip'),
    'C17': dict(families=['fmt.formats'], title='commitment formats and purity'),
    'C20': dict(families=['ante.cases'], title='mempool admission'),
    'C18': dict(families=['det.replicas'], title='state transitions are deterministic'),
    'C19': dict(traces=['l1'], families=['l1.perm'], title='permissioned IBC channel admin'),
}
