"""check selftest: demonstrations that the machinery is bound and can fail (DESIGN.md section 10).
Not a property check; exits 0 when every demonstration behaves as expected."""
import json, os, shutil, subprocess, tempfile

from . import engine as E
from . import families as F


def run():
    ok = True
    E.build_harness()
    tmp = tempfile.mkdtemp(prefix='selftest-', dir=E.WORK)
    try:
        # (a) a specification that disagrees with the code in one guard is rejected by the replay, with the right tag
        spec2 = os.path.join(tmp, 'spec')
        shutil.copytree(E.SPEC, spec2)
        p = os.path.join(spec2, 'L1Host.tla')
        s = open(p).read()
        needle = 'auth         |-> ex /\\ e.signer \\in {Gov, s.cfg[k].proposer, s.cfg[k].challenger},'
        assert needle in s
        open(p, 'w').write(s.replace(needle, 'auth         |-> ex /\\ e.signer \\in {Gov, s.cfg[k].proposer},'))
        real_spec = E.SPEC
        E.SPEC = spec2
        work = os.path.join(tmp, 'w1'); os.makedirs(work)
        try:
            fam = dict(F.FAMILIES['l1.auth'], properties=[], invariants=[])
            F.FAMILIES['selftest.oracle'] = fam
            fr = E.run_family('selftest.oracle', 'quick', 1, work)
            tags = set()
            for m in fr['walk']['mismatches']:
                tags |= E.attribute(m, 'l1')[0]
            good = fr['walk']['n_mismatch'] > 0 and 'C12' in tags
            E.log('selftest (a) spec that forbids the challenger to delete outputs: %d mismatching edges, tags %s -> %s' % (fr['walk']['n_mismatch'], sorted(tags), 'ok' if good else 'NOT DETECTED'))
            ok &= good
        finally:
            E.SPEC = real_spec
            F.FAMILIES.pop('selftest.oracle', None)
        # (b) a corrupted multi-replica trace is rejected by Trace_Replicas
        work = os.path.join(tmp, 'w2'); os.makedirs(work)
        trace = os.path.join(work, 't.ndjson')
        with open(trace, 'w') as fh:
            fh.write(json.dumps(dict(path=0, pos=1, event=dict(type='X'), digests=['aa', 'aa', 'aa'], outs=['11', '11', '11'])) + '\n')
            fh.write(json.dumps(dict(path=0, pos=2, event=dict(type='Y'), digests=['bb', 'bb', 'bc'], outs=['22', '22', '22'])) + '\n')
        out = os.path.join(work, 'o.txt')
        E.run_tlc('Trace_Replicas', 'SPECIFICATION Spec\nCONSTANT TraceFile = "%s"\n' % trace, work, out, 60, workers=1)
        txt = open(out).read()
        good = '"DISAGREE ' in txt and '\\"disagreements\\":1' in txt
        E.log('selftest (b) trace with one corrupted digest: %s' % ('rejected at that line' if good else 'NOT DETECTED'))
        ok &= good
        # (c) Replicas.tla with a per-replica choice violates Agreement
        out = os.path.join(work, 'o2.txt')
        r = E.run_tlc('Replicas', 'SPECIFICATION Spec\nCONSTANTS K = 3  LogLen = 3  Nondet = TRUE\nINVARIANT Agreement\nCHECK_DEADLOCK FALSE\n', work, out, 60, workers=2)
        good = 'Agreement' in r['violated']
        E.log('selftest (c) non-deterministic Apply in Replicas.tla: %s' % ('Agreement violated' if good else 'NOT DETECTED'))
        ok &= good
        # (d) SliceMem with the in-place append violates Pure
        out = os.path.join(work, 'o3.txt')
        r = E.run_tlc('SliceMem', 'SPECIFICATION Spec\nCONSTANTS HowPreimage = "append"  NItems = 3\nINVARIANTS Pure LayoutFree\nCHECK_DEADLOCK FALSE\n', work, out, 60, workers=1)
        good = 'Pure' in r['violated'] or 'LayoutFree' in r['violated']
        E.log('selftest (d) append-in-place preimage in SliceMem.tla: %s' % ('Pure/LayoutFree violated' if good else 'NOT DETECTED'))
        ok &= good
        # (e) the Apalache obligations are not vacuous: a false invariant is refuted from the same IndInit
        work = os.path.join(tmp, 'w5'); os.makedirs(work)
        r = subprocess.run(['timeout', '300', 'apalache-mc', 'check', '--init=IndInit', '--next=Next', '--inv=BogusDeleteFinal', '--length=1', '--out-dir=' + work, '--run-dir=' + work,
                            os.path.join(E.SPEC, 'OutputOracleInd.tla')], cwd=work, stdout=subprocess.PIPE, stderr=subprocess.STDOUT, text=True)
        good = 'Checker has found an error' in r.stdout
        E.log('selftest (e) false action invariant under Apalache: %s' % ('refuted' if good else 'NOT DETECTED'))
        ok &= good
        # (f) the liveness property is not vacuous: without fairness TLC finds a lasso that never drains
        work = os.path.join(tmp, 'w6'); os.makedirs(work)
        out = os.path.join(work, 'o6.txt')
        r = E.run_tlc('MC_BridgeLive', 'SPECIFICATION UnfairSpec\nPROPERTIES EventuallyDrained\nCHECK_DEADLOCK FALSE\n', work, out, 240, workers=4)
        txt = open(out).read()
        good = 'Temporal property EventuallyDrained was violated' in txt or 'EventuallyDrained' in r['violated']
        E.log('selftest (f) EventuallyDrained without fairness: %s' % ('violated (lasso found)' if good else 'NOT DETECTED'))
        ok &= good
        # (g) the TLAPS proof is not vacuous: with a Delete that does not look at finality the proof of FinalIrreversible fails
        work = os.path.join(tmp, 'w7'); os.makedirs(work)
        txt = open(os.path.join(E.SPEC, 'OutputOracleProof.tla')).read()
        needle = '    /\\ \\A j \\in i..Len(outs) : ~Final(j)\n    /\\ outs\' = SubSeq(outs, 1, i - 1)'
        assert needle in txt
        r = E.run_tlaps('l1.oracle-proof', 'quick', 1, work, module_text=txt.replace(needle, '    /\\ outs\' = SubSeq(outs, 1, i - 1)', 1))
        good = not r['proved']
        E.log('selftest (g) Delete without the finality guard under tlapm: %s' % ('proof fails' if good else 'STILL PROVED'))
        ok &= good
    finally:
        shutil.rmtree(tmp, ignore_errors=True)
    E.log('SELFTEST %s' % ('PASS' if ok else 'FAIL'))
    return 0 if ok else 1
