"""Engines E1/E2/E3, attribution, verdict, evidence (DESIGN.md sections 5 and 6)."""
import atexit, json, os, re, shutil, subprocess, sys, time, hashlib

from . import families as F

VERIF = os.path.dirname(os.path.dirname(os.path.dirname(os.path.abspath(__file__))))
REPO = os.environ.get('VERIF_REPO', '/repo')
SPEC = os.path.join(VERIF, 'spec')
HARNESS = os.path.join(VERIF, 'harness')
WORK = os.path.join(VERIF, 'work')
REPLAYS = os.path.join(WORK, 'replays')
VH = os.path.join(WORK, 'bin', 'vh')
NPROC = os.cpu_count() or 4

GOENV = dict(os.environ, GOFLAGS='-mod=mod', GOPROXY='off', GOSUMDB='off', GOTOOLCHAIN='local', GOWORK='off',
             GOCACHE=os.environ.get('GOCACHE', os.path.join(WORK, 'gocache')))


class Undecided(Exception):
    """Anything that is not evidence about the code (tool failure, spec problem, timeout)."""


def log(*a):
    print(*a, flush=True)


# ---------------------------------------------------------------------------------------------------
def build_harness():
    """Rebuilds the harness against REPO's current working tree (hooks tag `verif`; none needed so far).
    For a REPO other than /repo (scratch copies used to test seeded changes) the harness sources are
    copied to a private build directory so that concurrent checks do not share go.mod."""
    global VH
    t0 = time.time()
    # every run builds in a private copy of the harness sources and into a binary of its own, so that checks running at
    # the same time (several properties, several trees) never share go.mod or overwrite a binary another one executes
    tag = '%s-%d' % (hashlib.sha1(REPO.encode()).hexdigest()[:10], os.getpid())
    src = os.path.join(WORK, 'harness-' + tag)
    shutil.rmtree(src, ignore_errors=True)
    os.makedirs(WORK, exist_ok=True)
    shutil.copytree(HARNESS, src, ignore=shutil.ignore_patterns('go.mod', 'go.sum'))
    VH = os.path.join(WORK, 'bin', 'vh-' + tag)
    os.makedirs(os.path.dirname(VH), exist_ok=True)
    atexit.register(lambda path=VH: os.path.exists(path) and os.remove(path))
    try:
        subprocess.run(['sh', os.path.join(src, 'mkmod.sh')], check=True, env=dict(GOENV, REPO=REPO))
        r = subprocess.run(['go', 'build', '-tags', 'verif', '-o', VH, './cmd/vh'], cwd=src, env=GOENV,
                           stdout=subprocess.PIPE, stderr=subprocess.STDOUT, text=True)
    finally:
        shutil.rmtree(src, ignore_errors=True)
    if r.returncode != 0:
        raise Undecided('harness does not build against the repository:\n' + r.stdout[-4000:])
    return time.time() - t0


def setup():
    try:
        dt = build_harness()
    except Undecided as e:
        log('SETUP FAILED', e)
        return 2
    log('harness built in %.1fs' % dt)
    return 0


# ---------------------------------------------------------------------------------------------------
TLC_STATS = re.compile(r'(\d[\d,]*) states generated, (\d[\d,]*) distinct states found, (\d[\d,]*) states left on queue')


def run_tlc(module, cfg_text, workdir, out_path, timeout, workers=None, extra=None):
    """Runs TLC on spec/<module>.tla with the given config text; stdout (incl. EDGE lines) goes to out_path."""
    cfg = os.path.join(workdir, module + '_' + hashlib.sha1(cfg_text.encode()).hexdigest()[:8] + '.cfg')
    with open(cfg, 'w') as fh:
        fh.write(cfg_text)
    meta = os.path.join(workdir, 'meta_' + os.path.basename(cfg))
    cmd = ['timeout', str(timeout), 'tlc', '-noGenerateSpecTE', '-workers', str(workers or NPROC), '-metadir', meta, '-config', cfg] + (extra or []) + [module + '.tla']
    t0 = time.time()
    jtmp = os.path.join(workdir, 'jtmp')
    os.makedirs(jtmp, exist_ok=True)
    env = dict(os.environ, JAVA_TOOL_OPTIONS=(os.environ.get('JAVA_TOOL_OPTIONS', '') + ' -Djava.io.tmpdir=' + jtmp).strip())
    with open(out_path, 'w') as fh:
        r = subprocess.run(cmd, cwd=SPEC, stdout=fh, stderr=subprocess.STDOUT, env=env)
    shutil.rmtree(jtmp, ignore_errors=True)
    shutil.rmtree(meta, ignore_errors=True)
    res = dict(rc=r.returncode, wall=time.time() - t0, states=0, distinct=0, violated=[], errors=[])
    tail = []
    with open(out_path, errors='replace') as fh:
        for line in fh:
            if line.startswith('"EDGE') or line.startswith('"META') or line.startswith('"TRACE'):
                continue
            tail.append(line.rstrip('\n'))
            m = TLC_STATS.search(line)
            if m:
                res['states'] = int(m.group(1).replace(',', ''))
                res['distinct'] = int(m.group(2).replace(',', ''))
            m = re.search(r'Invariant (\S+) is violated', line)
            if m:
                res['violated'].append(m.group(1))
            m = re.search(r'Action property (\S+) is violated|Temporal properties were violated|property (\S+) (?:is|was) violated', line)
            if m:
                res['violated'].append(m.group(1) or m.group(2) or 'temporal')
            if line.startswith('Error:') or 'Exception' in line:
                res['errors'].append(line.strip())
    res['tail'] = tail[-40:]
    if r.returncode == 124:
        raise Undecided('TLC timed out after %ds on %s' % (timeout, module))
    return res


def family_cfg(fam, tier, devs=()):
    lines = ['SPECIFICATION Spec',
             'CONSTANTS Fam = "%s"  Tier = "%s"  Devs = {%s}  FailCap = %d' % (
                 fam['fam'], tier, ', '.join('"%s"' % d for d in devs), fam['failcap'][tier]),
             'VIEW View', 'ACTION_CONSTRAINT Emit', 'CHECK_DEADLOCK FALSE']
    if fam['invariants']:
        lines.append('INVARIANTS ' + ' '.join(fam['invariants']))
    if fam['properties']:
        lines.append('PROPERTIES ' + ' '.join(fam['properties']))
    return '\n'.join(lines) + '\n'


# ---------------------------------------------------------------------------------------------------
TAGS = json.load(open(os.path.join(SPEC, 'tags.json')))
TAGS.setdefault('br', dict(guard={}, suff={}, err_guard=[], field={}, event_all_fields={}, finding={}))
TAGS.setdefault('det', dict(guard={}, suff={}, err_guard=[], field={}, event_all_fields={}, finding={}))
TAGS.setdefault('ante', dict(guard={}, suff={}, err_guard=[], field={}, event_all_fields={}, finding={}))
TAGS.setdefault('fmt', dict(guard={}, suff={}, err_guard=[], field={}, event_all_fields={}, finding={}))


def guard_tags(mod, etype, guard):
    t = TAGS[mod]['guard']
    return set(t.get(etype + '.' + guard, t.get(guard, [])))


def field_tags(mod, path):
    """longest matching prefix; '*' matches one path component."""
    best, best_len = [], -1
    parts = path.split('.')
    for pat, tags in TAGS[mod]['field'].items():
        pp = pat.split('.')
        if len(pp) > len(parts):
            # allow a last component that is a prefix of the path's component (bal.esc matches bal.esc1)
            continue
        ok = True
        for i, comp in enumerate(pp):
            if comp == '*':
                continue
            if i == len(pp) - 1 and parts[i].startswith(comp) and pat in ('bal.esc',):
                continue
            if comp != parts[i]:
                ok = False
                break
        if ok and len(pp) > best_len:
            best, best_len = tags, len(pp)
    return set(best)


def target_bridge(ev):
    if ev.get('type') == 'BankSend' and str(ev.get('to', '')).startswith('esc'):
        return str(ev['to'])[3:]
    if 'b' in ev:
        return str(ev['b'])
    return None


BRIDGE_KEYED = ('cfg', 'l1seq', 'nextOut', 'outs', 'batch', 'lastFinal', 'pairs', 'claimed')


def attribute(m, mod='l1'):
    """tags of one mismatch record (from the Go walker or from the trace validator); mod selects the tag table."""
    if mod == 'br':
        # composite model: the event says which chain it belongs to; fields are prefixed with l1. / l2.
        ev = m.get('event') or {}
        sub = 'l1' if ev.get('chain') == 'L1' else 'l2'
        m2 = dict(m, event=ev.get('e') or {})
        fs = []
        for f in m.get('fields') or []:
            if f.startswith('l1.') or f.startswith('l2.'):
                if f[:2] == sub:
                    fs.append(f[3:])
                else:
                    fs.append('?otherchain.' + f)
            else:
                fs.append(f)
        m2['fields'] = fs
        tags, why = attribute(m2, sub)
        if tags & {'C01', 'C06', 'C07', 'C09', 'C10', 'C02'} or any(f.split('.')[0] in ('deps', 'wds', 'trees', '?otherchain') for f in fs):
            tags.add('C08')        # the cross-chain equation is exposed to every single-module ledger fault
        if any(f.split('.')[0] in ('wds', 'trees') for f in fs):
            tags.add('C04')
        return tags, '[' + sub + '] ' + why
    T = TAGS[mod]
    ev = m.get('event') or {}
    et = ev.get('type', '?')
    tags = set()
    why = ''
    if m['kind'] == 'result':
        if m['impl_ok'] and not m['spec_ok']:
            for g in m.get('failed_guards') or []:
                tags |= guard_tags(mod, et, g)
            why = 'implementation accepted %s although guard(s) %s are false' % (et, ','.join(m.get('failed_guards') or []))
        else:
            tags |= set(T['suff'].get(et, []))
            err = (m.get('impl_err') or '').lower()
            for sub, g in T['err_guard']:
                if sub in err:
                    tags |= guard_tags(mod, et, g)
                    break
            why = 'implementation rejected %s (%s) although every guard of the specification holds' % (et, (m.get('impl_err') or '')[:160])
    elif m['kind'] in ('state', 'resp'):
        tb = target_bridge(ev)
        created = None
        if et == 'CreateBridge':       # the bridge it creates is the only one it may touch
            created = (m.get('spec_resp') or m.get('impl_resp') or {}).get('bridge')
            created = str(created) if created is not None else None
        for p in m.get('fields') or []:
            full = p if m['kind'] == 'state' else 'resp.' + et + '.' + p
            tags |= field_tags(mod, full)
            comps = p.split('.')
            if mod == 'l1' and m['kind'] == 'state' and comps[0] in BRIDGE_KEYED and len(comps) > 1 and tb is not None and comps[1] != tb and et != 'CreateBridge':
                tags.add('C01')      # an operation addressed to one bridge changed another bridge's records
            if mod == 'l1' and m['kind'] == 'state' and comps[0] in BRIDGE_KEYED and len(comps) > 1 and created is not None and comps[1] != created and not comps[1].startswith('?'):
                tags.add('C01')      # creating a bridge changed the records of an existing one
            if mod == 'l1' and m['kind'] == 'state' and comps[0] == 'bal' and len(comps) > 1 and comps[1].startswith('esc') and tb is not None and comps[1][3:] != tb:
                tags.add('C01')
        tags |= set(T['event_all_fields'].get(et, []))
        if et == 'Query':
            tags |= set(T.get('query', {}).get(ev.get('q'), []))
        if mod == 'val' and et == 'EndBlock' and (m.get('spec_resp') or {}).get('planned'):
            tags.add('C14')      # the block that applies an executor-change plan
        why = '%s of %s differs in %s' % ('post-state' if m['kind'] == 'state' else 'response', et, ','.join((m.get('fields') or [])[:6]))
    elif m['kind'] == 'replicas':
        tags.add('C18')
        why = 'replicas disagree on %s after %s (history from %s, path %s position %s)' % (m['fields'][0], et, m['detail'].get('source'), m['detail'].get('path'), m['detail'].get('pos'))
    elif m['kind'] == 'case':
        if m.get('stated', True):
            tags.add('C20')
        why = 'decision of %s differs: specification %s, implementation %s for %s' % (et, json.dumps(m['detail'].get('spec')), json.dumps(m['detail'].get('impl')), json.dumps(m['detail'].get('case'))[:300])
    elif m['kind'] == 'format':
        tags.add('C17')
        why = '%s: %s (%s)' % (et, m.get('fmt_kind'), json.dumps(m.get('detail'))[:300])
    elif m['kind'] == 'init':
        # a fresh chain does not start in the specification's initial state: the fields that differ say which property
        # is concerned (the next-sequence queries, the params, ...); untagged differences leave the run undecided
        for p in m.get('fields') or []:
            tags |= field_tags(mod, p)
        why = 'a fresh chain starts in a state that differs from the initial state of the specification in ' + ','.join((m.get('fields') or [])[:8])
    elif m['kind'] == 'invariant':
        tags |= set(m.get('tags') or [])
        why = 'invariant %s fails on an observed state' % m.get('name')
    if m.get('after_import') and not m.get('diverged'):
        tags.add('C16')          # the same edge conforms on the original chain (it is replayed there too) and differs on the re-imported one
        why += ' (on the chain re-imported from genesis one step earlier)'
    if et == 'Query' and m['kind'] in ('result', 'resp', 'state') and any(isinstance(x, dict) and (x.get('e') or x).get('type') == 'ExportImport' for x in (m.get('path') or [])):
        tags.add('C16')          # C16: the re-imported chain answers every later query as the original would
        why += ' (after a genesis round trip)'
    return tags, why


# ---------------------------------------------------------------------------------------------------
def load_known():
    p = os.path.join(VERIF, 'known_findings.json')
    if not os.path.exists(p):
        return []
    return json.load(open(p)).get('findings', [])


def matches_known(k, pid, m):
    """An OPEN known finding explains mismatch m of property pid if its signature matches."""
    if k.get('status') != 'open' or pid not in k.get('properties', [k.get('property')]):
        return False
    sig = k.get('signature', {})
    if not sig:
        return False
    if 'finding' in sig:
        # finding signatures are matched only against findings the implementation itself reports on conforming edges
        return m.get('kind') == 'finding' and m.get('finding') == sig['finding']
    ev = m.get('event') or {}
    if 'event' in sig and sig['event'] != ev.get('type'):
        return False
    if 'kind' in sig and sig['kind'] != m.get('kind'):
        return False
    if 'guard' in sig and sig['guard'] not in (m.get('failed_guards') or []):
        return False
    if 'field_prefix' in sig and not any(f.startswith(sig['field_prefix']) for f in (m.get('fields') or [])):
        return False
    if 'err_contains' in sig and sig['err_contains'].lower() not in (m.get('impl_err') or '').lower():
        return False
    if 'dev' in sig and sig['dev'] not in (m.get('devs') or []):
        return False
    for k2, v in (sig.get('event_fields') or {}).items():
        if ev.get(k2) != v:
            return False
    return True


# ---------------------------------------------------------------------------------------------------
def run_formats(name, tier, seed, work):
    """C17: TLC emits the term of every operator / structural case of Formats.tla and every memory layout
    of SliceMem.tla (checking Pure and LayoutFree on the model); the harness evaluates the terms with the
    generic evaluator and compares with the chain's functions, and runs every layout for real."""
    fam = F.FAMILIES[name]
    c = fam['consts'][tier]
    out1 = os.path.join(work, 'fmt.tlc.out')
    log('[%s] TLC: emitting format cases (MaxTree=%d MaxProof=%d)' % (name, c['MaxTree'], c['MaxProof']))
    r1 = run_tlc(fam['module'], 'SPECIFICATION Spec\nCONSTANTS MaxTree = %d  MaxProof = %d\n' % (c['MaxTree'], c['MaxProof']), work, out1, fam['timeout'][tier], workers=1)
    out2 = os.path.join(work, 'slicemem.tlc.out')
    log('[%s] E1: TLC on SliceMem (NItems=%d): Pure, LayoutFree over all layouts and comparison outcomes' % (name, c['NItems']))
    r2 = run_tlc(fam['sm_module'], 'SPECIFICATION Spec\nCONSTANTS HowPreimage = "fresh"  NItems = %d\nINVARIANTS Pure LayoutFree EmitDone\nCHECK_DEADLOCK FALSE\n' % c['NItems'],
                 work, out2, fam['timeout'][tier], workers=1)
    for r in (r1, r2):
        if r['violated'] or r['errors'] or r['rc'] != 0:
            raise Undecided('TLC failed on the formats models (rc=%s violated=%s errors=%s)\n%s' % (r['rc'], r['violated'], r['errors'][:3], '\n'.join(r['tail'][-20:])))
    rep_path = os.path.join(work, 'fmt.json')
    t0 = time.time()
    rr = subprocess.run([VH, 'fmt-check', '--edges', out1, '--layouts', out2, '--vectors', os.path.join(VERIF, 'vectors', 'formats.json'),
                         '--seed', str(seed), '--rounds', str(c['rounds']), '--out', rep_path], stdout=subprocess.PIPE, stderr=subprocess.STDOUT, text=True, timeout=fam['timeout'][tier] * 3)
    if rr.returncode != 0:
        raise Undecided('fmt-check failed: ' + rr.stdout[-3000:])
    rep = json.load(open(rep_path))
    log('[%s] %d cases + %d layouts, %d evaluations on the real functions, %d mismatches, %.0fs' % (name, rep['cases'], rep['layouts'], rep['evaluations'], rep['n_mismatch'], time.time() - t0))
    if rep['cases'] == 0 or rep['layouts'] == 0 or rep['layout_patterns_not_reached'] > rep['layouts'] // 4:
        raise Undecided('formats run is vacuous: %s' % {k: rep[k] for k in ('cases', 'layouts', 'layout_patterns_not_reached')})
    mism = []
    for m in rep['mismatches']:
        if m['kind'] in ('evaluator', 'vector'):
            raise Undecided('harness evaluator / pinned vectors inconsistent with Formats.tla: %s' % json.dumps(m)[:600])
        mism.append(dict(kind='format', event=dict(type=m['fn']), fields=[m['kind']], impl_ok=True, spec_ok=True, detail=m['detail'], path=[], fmt_kind=m['kind']))
    walk = dict(states=r2['distinct'], edges=rep['evaluations'], edges_ok=rep['evaluations'], replayed=rep['evaluations'], unreached_states=0, skipped_subtrees=0,
                by_type=rep['by_fn'], mismatches=mism, n_mismatch=rep['n_mismatch'], samples=rep['samples'], findings={}, finding_samples={})
    tlc = dict(r2)
    return dict(name=name, tlc=tlc, walk=walk, meta=dict(tier=tier), scale='-', walker='fmt-check')


def run_cases(name, tier, seed, work):
    """C20-style families: TLC enumerates the input space of a pure decision function, checks sanity ASSUMEs,
    prints one CASE line per input with the specification's decision; the harness replays every case on the real code."""
    fam = F.FAMILIES[name]
    out1 = os.path.join(work, name + '.tlc.out')
    log('[%s] TLC: enumerating cases of %s (tier %s)' % (name, fam['module'], tier))
    r1 = run_tlc(fam['module'], 'SPECIFICATION Spec\nCONSTANTS Tier = "%s"  D = 4\n' % tier, work, out1, fam['timeout'][tier], workers=1)
    if r1['violated'] or r1['errors'] or r1['rc'] != 0:
        raise Undecided('TLC failed on %s (rc=%s errors=%s)\n%s' % (fam['module'], r1['rc'], r1['errors'][:3], '\n'.join(r1['tail'][-20:])))
    rep_path = os.path.join(work, name + '.json')
    t0 = time.time()
    rr = subprocess.run([VH, fam['checker'], '--edges', out1, '--seed', str(seed), '--out', rep_path], stdout=subprocess.PIPE, stderr=subprocess.STDOUT, text=True, timeout=fam['timeout'][tier] * 3)
    if rr.returncode != 0:
        raise Undecided('%s failed: %s' % (fam['checker'], rr.stdout[-3000:]))
    rep = json.load(open(rep_path))
    log('[%s] %d cases replayed on the real code (%s), %d mismatches, %.0fs' % (name, rep['cases'], rep['by_fn'], rep['n_mismatch'], time.time() - t0))
    if rep['cases'] == 0 or any(v == 0 for v in rep['by_fn'].values()):
        raise Undecided('case run is vacuous: %s' % rep['by_fn'])
    mism = [dict(kind='case', event=dict(type=m['fn']), fields=[], impl_ok=True, spec_ok=True, stated=m.get('stated', True),
                 detail=dict(case=m['case'], spec=m['want'], impl=m['got'], err=m.get('err')), path=[]) for m in rep['mismatches']]
    walk = dict(states=rep['cases'], edges=rep['cases'], edges_ok=rep['cases'], replayed=rep['cases'], unreached_states=0, skipped_subtrees=0,
                by_type=rep['by_fn'], mismatches=mism, n_mismatch=rep['n_mismatch'], samples=rep['samples'], findings={}, finding_samples={})
    tlc = dict(r1)
    tlc['distinct'] = rep['cases']
    tlc['states'] = rep['cases']
    return dict(name=name, tlc=tlc, walk=walk, meta=dict(tier=tier), scale='-', walker=fam['checker'])


def run_replicas(name, tier, seed, work):
    """C18: Replicas.tla (Agreement of K replicas applying one log) is checked by TLC; behaviours of the other model
    families (random paths through the graphs TLC emits) are executed on K fresh instances each, one trace line per
    log position with the store digests and output hashes of all replicas, and TLC checks Agreement on that trace."""
    fam = F.FAMILIES[name]
    c = fam['consts'][tier]
    out0 = os.path.join(work, 'replicas.tlc.out')
    r0 = run_tlc(fam['module'], 'SPECIFICATION Spec\nCONSTANTS K = 3  LogLen = 3  Nondet = FALSE\nINVARIANT Agreement\nCHECK_DEADLOCK FALSE\n', work, out0, 120, workers=4)
    if r0['violated'] or r0['errors'] or r0['rc'] != 0:
        raise Undecided('TLC failed on Replicas.tla: %s' % r0['tail'][-10:])
    log('[%s] E1: Replicas.tla: %d states, Agreement holds for K=3, log length 3' % (name, r0['distinct']))
    lines = disagreements = 0
    by_type, samples, mism, src_stats = {}, [], [], []
    for src, kind in fam['sources'][tier]:
        sf = F.FAMILIES[src]
        out = os.path.join(work, src + '.tlc.out')
        res = run_tlc(sf['module'], family_cfg(dict(sf, invariants=[], properties=[]), 'quick'), work, out, sf['timeout']['quick'])
        if res['errors'] or res['rc'] != 0:
            raise Undecided('TLC failed while emitting the graph of %s' % src)
        trace = os.path.join(work, src + '.det.ndjson')
        rr = subprocess.run([VH, 'det-run', '--edges', out, '--kind', kind, '--paths', str(c['paths']), '--len', str(c['length']), '--replicas', str(c['replicas']),
                             '--seed', str(seed), '--scale', sf['scale'], '--out', trace], stdout=subprocess.PIPE, stderr=subprocess.STDOUT, text=True, timeout=fam['timeout'][tier] * 2)
        os.remove(out)
        if rr.returncode != 0:
            raise Undecided('det-run failed on %s: %s' % (src, rr.stdout[-2000:]))
        st = json.loads(rr.stdout.strip().splitlines()[-1])
        tout = os.path.join(work, src + '.trace.tlc.out')
        rt = run_tlc(fam['trace_module'], 'SPECIFICATION Spec\nCONSTANT TraceFile = "%s"\n' % trace, work, tout, fam['timeout'][tier], workers=1)
        summary = None
        for line in open(tout, errors='replace'):
            if line.startswith('"REPLICAS '):
                summary = json.loads(json.loads(line)[9:])
            elif line.startswith('"DISAGREE '):
                d = json.loads(json.loads(line)[9:])
                mism.append(dict(kind='replicas', event=d['event'], fields=['digest' if len(set(d['digests'])) > 1 else 'output'], impl_ok=True, spec_ok=True,
                                 detail=dict(source=src, path=d['path'], pos=d['pos'], digests=d['digests'], outs=d['outs']), path=[]))
        if rt['rc'] != 0 or summary is None or summary['lines'] != st['Lines'] or st['Lines'] == 0:
            raise Undecided('trace validation of %s did not complete (%s, %s)' % (src, summary, rt['tail'][-5:]))
        lines += summary['lines']
        disagreements += summary['disagreements']
        for k, v in st['ByType'].items():
            by_type[k] = by_type.get(k, 0) + v
        with open(trace) as fh:
            samples.append(json.loads(fh.readline()))
        src_stats.append(dict(source=src, paths=st['Paths'], positions=st['Lines'], replicas=st['Replicas'], disagreements=summary['disagreements']))
        log('[%s] %s: %d paths, %d log positions x %d replicas, %d disagreements (checked by TLC on the recorded trace)' % (name, src, st['Paths'], st['Lines'], st['Replicas'], summary['disagreements']))
    # replicas of one process read the same wall clock: a dependence on it is looked for in the sources instead
    rs = subprocess.run([VH, 'src-scan', '--file', REPO], stdout=subprocess.PIPE, stderr=subprocess.STDOUT, text=True, timeout=120)
    if rs.returncode != 0:
        raise Undecided('src-scan failed: %s' % rs.stdout[-1000:])
    scan = json.loads(rs.stdout.strip().splitlines()[-1])
    for f in scan:
        disagreements += 1
        mism.append(dict(kind='replicas', event=dict(type='source'), fields=['wall clock / unseeded randomness'], impl_ok=True, spec_ok=True,
                         detail=dict(source='src-scan', path=f['file'], pos=f['line'], what=f['what']), path=[]))
    log('[%s] source scan of x/ophost and x/opchild: %d reads of the wall clock outside telemetry, unseeded randomness, goroutines' % (name, len(scan)))
    walk = dict(states=r0['distinct'], edges=lines, edges_ok=lines, replayed=lines, unreached_states=0, skipped_subtrees=0, by_type=by_type,
                mismatches=mism[:50], n_mismatch=disagreements, samples=samples[:3], findings={}, finding_samples={}, sources=src_stats)
    return dict(name=name, tlc=dict(r0), walk=walk, meta=dict(tier=tier), scale='-', walker='det-run')


def run_apalache(name, tier, seed, work):
    """Inductive-invariant obligations of a typed TLA+ module discharged by Apalache (unbounded integers).
    This strengthens the design-level argument only; the binding to the code is E2/E3 of the same property."""
    fam = F.FAMILIES[name]
    t0 = time.time()
    done = []
    for title, init, inv, length in fam['obligations']:
        outdir = os.path.join(work, 'apalache-' + inv + str(length))
        r = subprocess.run(['timeout', str(fam['timeout'][tier]), 'apalache-mc', 'check', '--init=' + init, '--next=Next', '--inv=' + inv, '--length=%d' % length,
                            '--out-dir=' + outdir, '--run-dir=' + outdir, os.path.join(SPEC, fam['module'] + '.tla')], cwd=work, stdout=subprocess.PIPE, stderr=subprocess.STDOUT, text=True)
        ok = r.returncode == 0 and 'Checker reports no error' in r.stdout
        shutil.rmtree(outdir, ignore_errors=True)
        if not ok:
            raise Undecided('Apalache did not discharge "%s" of %s:\n%s' % (title, fam['module'], r.stdout[-1500:]))
        done.append(title)
    log('[%s] Apalache discharged %d obligations of %s.tla in %.0fs: %s' % (name, len(done), fam['module'], time.time() - t0, '; '.join(done)))
    walk = dict(states=0, edges=0, edges_ok=0, replayed=0, unreached_states=0, skipped_subtrees=0, by_type={}, mismatches=[], n_mismatch=0, samples=[], findings={}, finding_samples={})
    return dict(name=name, tlc=dict(distinct=0, states=0, wall=time.time() - t0), walk=walk, meta=dict(), scale='-', walker='apalache', obligations=done)


def run_tlaps(name, tier, seed, work, module_text=None):
    """A TLAPS proof (tlapm) of an unbounded inductive-invariant argument.  Design-level only, like run_apalache."""
    fam = F.FAMILIES[name]
    t0 = time.time()
    d = os.path.join(work, 'tlaps-' + fam['module'])
    shutil.rmtree(d, ignore_errors=True)
    os.makedirs(d)
    src = os.path.join(d, fam['module'] + '.tla')
    if module_text is None:
        shutil.copy(os.path.join(SPEC, fam['module'] + '.tla'), src)
    else:
        open(src, 'w').write(module_text)
    r = subprocess.run(['timeout', str(fam['timeout'][tier]), 'tlapm', '--threads', '8', '--cleanfp', fam['module'] + '.tla'], cwd=d, stdout=subprocess.PIPE, stderr=subprocess.STDOUT, text=True)
    m = re.search(r'All (\d+) obligations proved', r.stdout)
    shutil.rmtree(d, ignore_errors=True)
    if module_text is not None:
        return dict(proved=bool(m) and r.returncode == 0, out=r.stdout[-1500:])
    if not m or r.returncode != 0:
        raise Undecided('tlapm did not prove %s:\n%s' % (fam['module'], r.stdout[-1500:]))
    log('[%s] TLAPS: all %s obligations of %s.tla proved in %.0fs (theorems %s)' % (name, m.group(1), fam['module'], time.time() - t0, ', '.join(fam['theorems'])))
    walk = dict(states=0, edges=0, edges_ok=0, replayed=0, unreached_states=0, skipped_subtrees=0, by_type={}, mismatches=[], n_mismatch=0, samples=[], findings={}, finding_samples={})
    return dict(name=name, tlc=dict(distinct=0, states=0, wall=time.time() - t0), walk=walk, meta=dict(), scale='-', walker='tlapm', obligations=['%s obligations: %s' % (m.group(1), ', '.join(fam['theorems']))])


def run_liveness(name, tier, seed, work):
    """Temporal properties under a fair SPECIFICATION (no VIEW, no constraint); design-level only - the transitions are
    those of the family that E2/E3 bind to the code."""
    fam = F.FAMILIES[name]
    out = os.path.join(work, name + '.tlc.out')
    res = run_tlc(fam['module'], 'SPECIFICATION %s\nPROPERTIES %s\nCHECK_DEADLOCK FALSE\n' % (fam['spec'], ' '.join(fam['temporal'])), work, out, fam['timeout'][tier], workers=8)
    if res['violated'] or res['errors'] or res['rc'] != 0:
        raise Undecided('TLC did not verify %s of %s: %s' % (fam['temporal'], fam['module'], res['tail'][-12:]))
    log('[%s] TLC: %s hold under %s (%d distinct states)' % (name, fam['temporal'], fam['spec'], res['distinct']))
    walk = dict(states=res['distinct'], edges=0, edges_ok=0, replayed=0, unreached_states=0, skipped_subtrees=0, by_type={}, mismatches=[], n_mismatch=0, samples=[], findings={}, finding_samples={})
    return dict(name=name, tlc=res, walk=walk, meta=dict(), scale='-', walker='tlc-liveness')


def run_family(name, tier, seed, work):
    fam = F.FAMILIES[name]
    if fam.get('kind') == 'liveness':
        return run_liveness(name, tier, seed, work)
    if fam.get('kind') == 'apalache':
        return run_apalache(name, tier, seed, work)
    if fam.get('kind') == 'tlaps':
        return run_tlaps(name, tier, seed, work)
    if fam.get('kind') == 'replicas':
        return run_replicas(name, tier, seed, work)
    if fam.get('kind') == 'formats':
        return run_formats(name, tier, seed, work)
    if fam.get('kind') == 'cases':
        return run_cases(name, tier, seed, work)
    out = os.path.join(work, name + '.tlc.out')
    log('[%s] E1+emit: TLC on %s (tier %s)' % (name, fam['module'], tier))
    # Development aid for campaigns that run one unchanged specification against many changed trees (seeded changes,
    # mutants): with VERIF_EDGECACHE set, TLC's output for (specification files, configuration) is kept and reused.
    # Never set by a registered command: a check always runs TLC itself.
    cache = None
    if os.environ.get('VERIF_EDGECACHE'):
        hh = hashlib.sha1()
        for fn in sorted(os.listdir(SPEC)):
            if fn.endswith('.tla'):
                hh.update(open(os.path.join(SPEC, fn), 'rb').read())
        hh.update(family_cfg(fam, tier).encode())
        cache = os.path.join(os.environ['VERIF_EDGECACHE'], name + '-' + tier + '-' + hh.hexdigest()[:16])
    if cache and os.path.exists(cache + '.json'):
        shutil.copyfile(cache + '.out', out)
        res = json.load(open(cache + '.json'))
    else:
        res = run_tlc(fam['module'], family_cfg(fam, tier), work, out, fam['timeout'][tier])
        if cache and not (res['violated'] or res['errors'] or res['rc'] != 0):
            os.makedirs(os.path.dirname(cache), exist_ok=True)
            shutil.copyfile(out, cache + '.out.tmp%d' % os.getpid())
            os.replace(cache + '.out.tmp%d' % os.getpid(), cache + '.out')
            json.dump(res, open(cache + '.json', 'w'))
    if res['violated'] or res['errors'] or res['rc'] != 0:
        raise Undecided('TLC did not verify the bounded model of %s (rc=%s violated=%s errors=%s)\n%s' % (
            name, res['rc'], res['violated'], res['errors'][:3], '\n'.join(res['tail'][-25:])))
    log('[%s] E1: %d states generated, %d distinct, %.0fs; invariants %s and properties %s hold on the model' % (
        name, res['states'], res['distinct'], res['wall'], fam['invariants'], fam['properties']))
    rep_path = os.path.join(work, name + '.walk.json')
    t0 = time.time()
    log('[%s] E2: replaying every emitted transition on the real keepers (seed %d)' % (name, seed))
    r = subprocess.run([VH, fam['walker'], '--edges', out, '--seed', str(seed), '--scale', fam['scale'], '--out', rep_path, '--keep', '400'] + (['--tickscale', fam['tickscale']] if fam.get('tickscale') else []),
                       stdout=subprocess.PIPE, stderr=subprocess.STDOUT, text=True, timeout=fam['timeout'][tier] * 4)
    if r.returncode != 0:
        raise Undecided('walker failed on %s: %s' % (name, r.stdout[-3000:]))
    rep = json.load(open(rep_path))
    meta = None
    with open(out) as fh:
        for line in fh:
            if line.startswith('"META'):
                meta = json.loads(json.loads(line)[5:])
                break
    os.remove(out)
    log('[%s] E2: %d states, %d edges replayed (%d succeeding), %d mismatches, %.0fs' % (
        name, rep['states'], rep['replayed'], rep['edges_ok'], rep['n_mismatch'], time.time() - t0))
    if rep['mismatches'] and rep['mismatches'][0]['kind'] == 'init':
        # decided by the verdict rule: a violation of the properties the differing fields belong to, undecided otherwise
        return dict(name=name, tlc=res, walk=rep, meta=meta, scale=fam['scale'], walker=fam['walker'], tickscale=fam.get('tickscale'))
    if rep['unreached_states'] or rep['replayed'] == 0:
        raise Undecided('walker could not reach %d states of %s' % (rep['unreached_states'], name))
    return dict(name=name, tlc=res, walk=rep, meta=meta, scale=fam['scale'], walker=fam['walker'], tickscale=fam.get('tickscale'))


def deep_diff(a, b, path=''):
    """paths at which two JSON values differ ([] and {} are the same empty value)."""
    def empty(x):
        return x in ([], {}, None)
    if isinstance(a, dict) and isinstance(b, dict):
        out = []
        for k in sorted(set(a) | set(b)):
            p = k if not path else path + '.' + k
            if k not in a or k not in b:
                out.append(p)
            else:
                out += deep_diff(a[k], b[k], p)
        return out
    if empty(a) and empty(b):
        return []
    if isinstance(a, dict) and empty(b) or isinstance(b, dict) and empty(a):
        d = a if isinstance(a, dict) else b
        return [(path + '.' + k) if path else k for k in sorted(d)]
    return [] if a == b else [path or '<root>']


def keep_per_class(mism, per=4, cap=4000):
    """Same rule as the Go walker: keep a few mismatches of every class so that a flood of one class cannot hide another."""
    seen, out = {}, []
    for m in mism:
        tops = sorted({'.'.join(f.split('.')[:2]) for f in (m.get('fields') or [])})
        ev = m.get('event') or {}
        ev = ev.get('e', ev) if isinstance(ev.get('e'), dict) else ev
        c = (m.get('kind'), m.get('name'), ev.get('type'), m.get('spec_ok'), m.get('impl_ok'), tuple(sorted(m.get('failed_guards') or [])), tuple(tops))
        if seen.get(c, 0) < per and len(out) < cap:
            seen[c] = seen.get(c, 0) + 1
            out.append(m)
    return out


def run_trace(name, tier, seed, work):
    """E3: seeded random histories on the real keepers (NDJSON with event, result, response, full projected state per
    line) validated by TLC: each line is a one-step refinement check from the observed pre-state; invariants are
    evaluated on observed states; divergences are converted into the same mismatch records E2 produces."""
    tr = F.TRACES[name]
    trace = os.path.join(work, name + '.trace.ndjson')
    t0 = time.time()
    rr = subprocess.run([VH, tr['driver'], '--seed', str(seed), '--paths', str(tr['runs'][tier]), '--len', str(tr['length'][tier]), '--out', trace],
                        stdout=subprocess.PIPE, stderr=subprocess.STDOUT, text=True, timeout=tr['timeout'][tier])
    if rr.returncode != 0:
        raise Undecided('driver %s failed: %s' % (tr['driver'], rr.stdout[-2000:]))
    stats = json.loads(rr.stdout.strip().splitlines()[-1])
    out = os.path.join(work, name + '.trace.tlc.out')
    res = run_tlc(tr['module'], 'SPECIFICATION Spec\nCONSTANT TraceFile = "%s"\n' % trace, work, out, tr['timeout'][tier], workers=1)
    lines = [json.loads(l) for l in open(trace)]
    n = None
    mism = []
    for l in open(out, errors='replace'):
        if l.startswith('"TRACE '):
            n = json.loads(json.loads(l)[6:])['lines']
        elif l.startswith('"DIV '):
            d = json.loads(json.loads(l)[4:])
            rec = lines[d['line'] - 1]
            m = dict(kind=d['kind'], event=rec['e'], impl_ok=rec['ok'], spec_ok=d.get('spec_ok', rec['ok']), impl_err=rec.get('err'), failed_guards=d.get('failed') or [], impl_resp=rec.get('resp'),
                     path=[], trace_line=d['line'], run=rec.get('run'))
            if d['kind'] == 'state':
                m['fields'] = []
                for f in d['fields']:
                    if f in (d.get('spec') or {}):
                        m['fields'] += deep_diff((d.get('spec') or {}).get(f), rec['state'].get(f), f)
                    else:
                        m['fields'].append(f)       # nested field name reported by the trace spec itself (composite models)
                m['detail'] = dict(spec={f: (d.get('spec') or {}).get(f) for f in d['fields'][:4]})
            elif d['kind'] == 'resp':
                m['fields'] = deep_diff(d.get('spec'), rec.get('resp'))
                m['detail'] = dict(spec=d.get('spec'), impl=rec.get('resp'))
            mism.append(m)
        elif l.startswith('"INV '):
            d = json.loads(json.loads(l)[4:])
            rec = lines[d['line'] - 1]
            for inv in d['failed']:
                mism.append(dict(kind='invariant', name=inv, tags=tr['inv_tags'].get(inv, []), event=rec.get('e') or {}, impl_ok=rec.get('ok'), spec_ok=True, path=[], trace_line=d['line'], run=rec.get('run')))
    if res['rc'] != 0 or res['errors'] or n != len(lines) or n == 0:
        raise Undecided('trace validation of %s did not complete (lines %s of %s, rc=%s, %s)' % (name, n, len(lines), res['rc'], res['errors'][:2] or res['tail'][-6:]))
    # replay material: the events of the run up to the offending line
    for m in mism:
        run = m.get('run')
        m['path'] = [x['e'] for x in lines[:m['trace_line'] - 1] if x.get('run') == run and 'e' in x]
        m['reset'] = next((dict(scale=x['scale'], seed=x['seed']) for x in lines if x.get('run') == run and x.get('reset')), None)
    by_type = {k: v for k, v in stats.items() if not k.startswith('ok:')}
    ok_events = sum(v for k, v in stats.items() if k.startswith('ok:'))
    log('[trace.%s] E3: %d runs x %d events recorded from the real keepers, %d lines validated by TLC (%d succeeding events), %d divergences / invariant failures, %.0fs' % (
        name, tr['runs'][tier], tr['length'][tier], n, ok_events, len(mism), time.time() - t0))
    sample = dict(lines[1]) if len(lines) > 1 else {}
    sample.pop('state', None)
    walk = dict(states=n, edges=n, edges_ok=ok_events, replayed=n, unreached_states=0, skipped_subtrees=0, by_type=by_type, mismatches=keep_per_class(mism), n_mismatch=len(mism),
                samples=[sample], findings={}, finding_samples={})
    tlc = dict(res)
    tlc['distinct'] = 0
    tlc['states'] = 0
    return dict(name='trace.' + name, tlc=tlc, walk=walk, meta=dict(trace=True), scale='per-run', walker=tr['driver'], is_trace=True, mod=tr['mod'])


def write_replay(pid, fam_result, m, seed):
    os.makedirs(REPLAYS, exist_ok=True)
    if fam_result.get('is_trace') and m.get('reset'):
        seed = m['reset']['seed']
        fam_result = dict(fam_result, scale=m['reset']['scale'], walker={'l1': 'l1-walk', 'l2': 'l2-walk', 'val': 'val-walk', 'br': 'bridge-walk', 'or': 'oracle-walk'}.get(fam_result.get('mod'), fam_result['walker']), meta=dict(driver=True))
    body = dict(property=pid, family=fam_result['name'], run=m.get('run') or 0, walker=fam_result['walker'], seed=seed, scale=fam_result['scale'], tickscale=fam_result.get('tickscale') or '1',
                meta=fam_result['meta'], path=m.get('path') or [], event=m.get('event'), expect=dict(
                    spec_ok=m.get('spec_ok'), failed_guards=m.get('failed_guards'), fields=m.get('fields'), detail=m.get('detail')),
                observed=dict(impl_ok=m.get('impl_ok'), impl_err=m.get('impl_err')), kind=m['kind'])
    h = hashlib.sha1(json.dumps(body, sort_keys=True).encode()).hexdigest()[:12]
    p = os.path.join(REPLAYS, '%s-%s.json' % (pid, h))
    json.dump(body, open(p, 'w'), indent=1)
    return p


def run_property(pid, tier, seed):
    t0 = time.time()
    work = os.path.join(WORK, 'run-%s-%s-%d-%d' % (pid, tier, seed, os.getpid()))
    shutil.rmtree(work, ignore_errors=True)
    os.makedirs(work)
    ev_path = os.path.join(VERIF, 'evidence', pid + '.json') if REPO == '/repo' else os.path.join(WORK, 'evidence-scratch', pid + '.json')
    os.makedirs(os.path.dirname(ev_path), exist_ok=True)
    try:
        dt = build_harness()
        log('harness rebuilt from %s in %.1fs' % (REPO, dt))
        results = [run_family(n, tier, seed, work) for n in F.PROPERTIES[pid]['families']]
        results += [run_trace(n, tier, seed, work) for n in F.PROPERTIES[pid].get('traces', [])]
    except Undecided as e:
        log('UNDECIDED property=%s: %s' % (pid, e))
        shutil.rmtree(work, ignore_errors=True)
        return 2
    except subprocess.TimeoutExpired as e:
        log('UNDECIDED property=%s: timeout %s' % (pid, e))
        shutil.rmtree(work, ignore_errors=True)
        return 2
    known = load_known()
    violations, drift, known_hit = [], [], {}
    for fr in results:
        for m in fr['walk']['mismatches']:
            tags, why = attribute(m, fr.get('mod') or fr['name'].split('.')[0])
            if m['kind'] == 'init' and pid not in tags:
                log('UNDECIDED property=%s: %s' % (pid, why))
                shutil.rmtree(work, ignore_errors=True)
                return 2
            if pid in tags:
                k = next((k for k in known if matches_known(k, pid, m)), None)
                if k:
                    known_hit.setdefault(k['id'], [k, 0])[1] += 1
                else:
                    violations.append((fr, m, why))
            else:
                drift.append(dict(tags=sorted(tags), why=why))
        mod = fr.get('mod') or fr['name'].split('.')[0]
        for sig, n in sorted((fr['walk'].get('findings') or {}).items()):
            if pid not in TAGS[mod].get('finding', {}).get(sig, []):
                continue
            sample = (fr['walk'].get('finding_samples') or {}).get(sig) or {}
            fm = dict(kind='finding', finding=sig, event=sample.get('event'), path=sample.get('path'), impl_ok=True, spec_ok=True,
                      detail=dict(resp=sample.get('resp')))
            k = next((k for k in known if k.get('status') == 'open' and pid in k.get('properties', [k.get('property')]) and k.get('signature', {}).get('finding') == sig), None)
            if k:
                known_hit.setdefault(k['id'], [k, 0])[1] += n
            else:
                violations.append((fr, fm, 'the implementation does not deliver what the property promises on %d replayed transitions (finding signature %s)' % (n, sig)))
        kept = len(fr['walk']['mismatches'])
        if fr['walk']['n_mismatch'] > kept:
            log('note: %d further mismatches were not kept in the report of %s' % (fr['walk']['n_mismatch'] - kept, fr['name']))
    rc = 0
    for kid, (k, n) in sorted(known_hit.items()):
        log('KNOWN-FINDING: property=%s %s (%d occurrences; %s)' % (pid, k['what'], n, kid))
    seen = set()
    for fr, m, why in violations:
        key = (m['kind'], json.dumps((m.get('event') or {}).get('type')), tuple(m.get('failed_guards') or []), tuple(m.get('fields') or []), m.get('finding'))
        if key in seen:
            continue
        seen.add(key)
        p = write_replay(pid, fr, m, seed)
        log('VIOLATION property=%s replay=%s' % (pid, p))
        log('   ' + why)
        rc = 1
    # evidence
    states = sum(fr['tlc']['distinct'] for fr in results)
    trans = sum(fr['tlc']['states'] for fr in results)
    replayed = sum(fr['walk']['replayed'] for fr in results)
    samples = []
    for fr in results:
        samples += fr['walk'].get('samples') or []
    by_type = {}
    for fr in results:
        for k, v in fr['walk']['by_type'].items():
            by_type[k] = by_type.get(k, 0) + v
    evidence = dict(
        property_id=pid, tier=tier, seed=seed, level='model_checking',
        coverage=dict(
            states=states, transitions=trans, traces_validated_against_impl=replayed,
            samples=samples[:5] or [dict(note='no succeeding edge sampled')],
            exhaustive=True,
            families=[dict(name=fr['name'], distinct_states=fr['tlc']['distinct'], transitions=fr['tlc']['states'],
                           tlc_wall_s=round(fr['tlc']['wall'], 1), invariants=F.FAMILIES[fr['name']]['invariants'],
                           action_properties=F.FAMILIES[fr['name']]['properties'],
                           edges_replayed_on_real_code=fr['walk']['replayed'], succeeding_edges=fr['walk']['edges_ok'],
                           mismatches=fr['walk']['n_mismatch'], concretisation=dict(seed=seed, scale=fr['scale']))
                      for fr in results if not fr.get('is_trace')],
            recorded_traces=[dict(name=fr['name'], lines_validated_by_tlc=fr['walk']['replayed'], succeeding_events=fr['walk']['edges_ok'],
                                  divergences=fr['walk']['n_mismatch'], tlc_wall_s=round(fr['tlc']['wall'], 1)) for fr in results if fr.get('is_trace')],
            apalache_obligations_discharged=[o for fr in results for o in fr.get('obligations', [])],
            replayed_edges_by_event_type=by_type,
            rule='every transition TLC generates for the bounded model (all succeeding ones; failing ones with at most FailCap false guards) '
                 'is executed once on the real keepers from a real state projecting to its source state; result, response and full projected post-state are compared',
            drift=drift[:20], known_findings_hit=sorted(known_hit)),
        assumptions=['bounded constants of the MC_* family', 'harness fixtures stand in for baseapp / IBC keepers (DESIGN.md 5.1, 9)',
                     'SHA3/SHA256, bank and auth keepers trusted'],
        wall_s=round(time.time() - t0, 1), violations=len(seen))
    json.dump(evidence, open(ev_path, 'w'), indent=1)
    shutil.rmtree(work, ignore_errors=True)
    log('%s property=%s tier=%s seed=%d: %d states, %d transitions, %d edges replayed on real code, %d violations, %d drift notes, %.0fs' % (
        'FAIL' if rc else 'PASS', pid, tier, seed, states, trans, replayed, len(seen), len(drift), time.time() - t0))
    return rc


def replay(pid, path):
    build_harness()
    body = json.load(open(path))
    r = subprocess.run([VH, body['walker'].replace('-walk', '-replay'), '--file', path, '--tickscale', str(body.get('tickscale') or '1')])
    return r.returncode
